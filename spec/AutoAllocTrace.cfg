SPECIFICATION TraceSpec
CONSTANTS
  Delays <- DelaysVal
  MaxSubFails = 2
  MaxAllocFails = 2
  MaxQueuedErrs = 10
  MaxRunningErrs = 20
INVARIANT AtEnd
POSTCONDITION TraceAccepted
CHECK_DEADLOCK FALSE
