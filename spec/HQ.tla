------------------------------- MODULE HQ -------------------------------
(***************************************************************************)
(* HyperQueue cluster: server core (tako reactor + scheduler boundary),    *)
(* workers, job layer, and the history monitors over which the listed      *)
(* properties C01-C03, C05-C09, C13, C14 are phrased.                      *)
(*                                                                         *)
(* This module declares the state and the PROPERTY FORMULAS.  The formulas *)
(* are evaluated by TLC                                                    *)
(*   - on every state of the model (MC_HQ*.cfg, module HQModel), and       *)
(*   - on every state of every execution recorded from the real code       *)
(*     (module HQTrace), where the variables below are bound to the        *)
(*     projection of the real state logged by the harness.                 *)
(*                                                                         *)
(* Ids: task id = job*1000 + job_task_id; workers, jobs = naturals.        *)
(***************************************************************************)
EXTENDS Naturals, Integers, Sequences, FiniteSets, TLC, SequencesExt, FiniteSetsExt, Functions

VARIABLES
  \* ---- server core (tako)
  task,       \* [tid -> [st, w, v, nd, inst, crash, ws, rq, prio]], st \in {W,A,P,R,X,M,F}; DOMAIN = tasks known to the core
  queue,      \* [rq -> [ready : set of tids, hasPrefill, pprio, pset : set of tids]]
  redirect,   \* [tid -> [w, v]]
  srv,        \* [w -> [kind, assigned, prefilled, free, total, blocked, stopping, group, mn, root]]
  needSched,  \* BOOLEAN
  \* ---- workers and channels
  wk,         \* [w -> [running : set of [t,inst,v,rq], backlog : set of tids, blocked, s2w : Seq(msg), w2s : Seq(msg), stopped, remaining]]
  fut,        \* set of [w,t,inst] : live executions (fake task futures not yet ended)
  \* ---- job layer
  job,        \* [j -> [open, completed, n, cnt, tasks : [tid -> state], maxFails]]
  streams,    \* Seq([job, resp, completed]) : streaming submitters
  now,        \* virtual clock
  classes,    \* Seq(Seq([n_nodes, entries : Seq([r, amount]), min_time]))  request classes (static)
  \* ---- history / monitors
  tinfo,      \* [tid -> [job, deps, prio, rq, climit, tlimit, maxFails]] every task ever accepted
  hist,       \* [tid -> Seq([k, inst, ws, cls])] what reached the event sink, per task
  wstarts,    \* [tid -> Seq([w, inst, ok, now])] worker-side launches
  ranOk,      \* set of [t, w, inst] executions that ran to successful completion
  tstops,     \* set of [t, w, inst, reason] stop signals observed by executions
  cancelAck,  \* [tid -> Nat] tasks covered by an answered cancel -> Len(hist) at the answer
  wCancel,    \* set of <<w,t>> : worker w has processed a CancelTasks naming t
  gaveBack,   \* set of <<w,t>> : worker w has put t into a RetractResponse and not been sent it again
  nCompleted, \* [j -> Nat] number of JobCompleted events
  mustCrash,  \* [tid -> Nat] failure-losses while the server had reported t running on the lost worker
  mayCrash,   \* [tid -> Nat] failure-losses of a worker that had started t (upper bound)
  exceeded    \* set of jobs whose failure limit has been exceeded

coreVars == <<task, queue, redirect, srv, needSched>>
envVars  == <<wk, fut, job, streams, now, classes>>
monVars  == <<tinfo, hist, wstarts, ranOk, tstops, cancelAck, wCancel, gaveBack, nCompleted, mustCrash, mayCrash, exceeded>>
vars     == <<coreVars, envVars, monVars>>

-----------------------------------------------------------------------------
(* Helpers *)

Terminal == {"Finished", "Failed", "Canceled", "Aborted"}
JobOf(t) == t \div 1000
SeqSet(s) == {s[i] : i \in DOMAIN s}

HasTerminal(t) == \E i \in DOMAIN hist[t] : hist[t][i].k \in Terminal
Out(t) == IF hist[t] # <<>> /\ Last(hist[t]).k \in Terminal THEN Last(hist[t]).k ELSE "none"
AllTasks == DOMAIN tinfo
TasksOfJob(j) == {t \in AllTasks : tinfo[t].job = j}

RECURSIVE TransConsumersOf(_, _)
TransConsumersOf(S, acc) ==
  LET nxt == {c \in AllTasks : (tinfo[c].deps \cap S) # {}} \ acc
  IN IF nxt = {} THEN acc ELSE TransConsumersOf(nxt, acc \cup nxt)
TransConsumers(t) == TransConsumersOf({t}, {})

RECURSIVE AncestorsOf(_, _)
AncestorsOf(S, acc) ==
  LET nxt == (UNION {tinfo[c].deps : c \in S} \cap AllTasks) \ acc
  IN IF nxt = {} THEN acc ELSE AncestorsOf(nxt, acc \cup nxt)
Ancestors(t) == AncestorsOf({t}, {})

NFailed(j) == Cardinality({t \in TasksOfJob(j) : Out(t) = "Failed"})

Workers == DOMAIN srv
RunningTids(w) == {r.t : r \in wk[w].running}

\* amount requested of resource index r (1-based position) by variant v (0-based) of class rq (0-based) on worker w; -1 = all
Variant(rq, v) == classes[rq + 1][v + 1]
EntryAmount(e, w) == IF e.amount < 0 THEN srv[w].total[e.r + 1] ELSE e.amount
ReqAmount(rq, v, r, w) ==
  LET es == {e \in SeqSet(Variant(rq, v).entries) : e.r + 1 = r}
  IN IF es = {} THEN 0 ELSE EntryAmount(CHOOSE e \in es : TRUE, w)
NRes(w) == Len(srv[w].total)

\* the variant under which the reservation of t on worker w is held
HeldVariant(t, w) ==
  IF task[t].st \in {"A", "X"} THEN task[t].v
  ELSE IF t \in DOMAIN redirect THEN redirect[t].v ELSE 0

SumOver(S, f(_)) == FoldSet(LAMBDA x, acc : acc + f(x), 0, S)

TotalCovers(w, rq, v) ==
  \A e \in SeqSet(Variant(rq, v).entries) :
     /\ e.r + 1 <= NRes(w)
     /\ IF e.amount < 0 THEN srv[w].total[e.r + 1] > 0 ELSE srv[w].total[e.r + 1] >= e.amount
LifetimeCovers(w, rq, v) == wk[w].remaining < 0 \/ wk[w].remaining >= Variant(rq, v).min_time
\* for "some worker could run it": at the exact boundary remaining = min_time the worker's own clock decides (it computes its
\* remaining time from its own start instant and rejects when it is a hair short), so only a strictly larger remainder counts
LifetimeSurelyCovers(w, rq, v) == wk[w].remaining < 0 \/ wk[w].remaining > Variant(rq, v).min_time
IsMn(rq) == Variant(rq, 0).n_nodes > 0
CapableSn(w, t) ==
  /\ w \in DOMAIN wk /\ ~srv[w].stopping /\ ~wk[w].stopped
  /\ \E v \in 0..(Len(classes[tinfo[t].rq + 1]) - 1) : TotalCovers(w, tinfo[t].rq, v) /\ LifetimeSurelyCovers(w, tinfo[t].rq, v)
CapableMn(t) ==
  \E g \in {srv[w].group : w \in Workers} :
     Cardinality({w \in Workers : srv[w].group = g /\ ~srv[w].stopping /\ w \in DOMAIN wk /\ ~wk[w].stopped
                                   /\ LifetimeSurelyCovers(w, tinfo[t].rq, 0)}) >= Variant(tinfo[t].rq, 0).n_nodes
Runnable(t) == IF IsMn(tinfo[t].rq) THEN CapableMn(t) ELSE \E w \in Workers : CapableSn(w, t)

ChannelsEmpty == \A w \in DOMAIN wk : wk[w].s2w = <<>> /\ wk[w].w2s = <<>>
\* (an execution that was told to stop is no longer in fut; while its process is still dying the worker keeps it in `running`)
Quiescent == ChannelsEmpty /\ fut = {} /\ ~needSched /\ (\A w \in DOMAIN wk : ~wk[w].stopped /\ wk[w].running = {})

CancelInFlight(w, t) ==
  \E i \in DOMAIN wk[w].s2w : wk[w].s2w[i].k = "Cancel" /\ t \in SeqSet(wk[w].s2w[i].ids)

-----------------------------------------------------------------------------
(* C01 - one terminal outcome, once, in order *)

C01_OutcomeOnce ==
  \A t \in AllTasks : \A i \in DOMAIN hist[t] : hist[t][i].k \in Terminal => i = Len(hist[t])
C01_FinishAfterStart ==
  \A t \in AllTasks : \A i \in DOMAIN hist[t] :
     hist[t][i].k = "Finished" => \E k \in 1..(i - 1) : hist[t][k].k = "Started"
C01_FinishedRan ==
  \A t \in AllTasks : Out(t) = "Finished" => \E r \in ranOk : r.t = t
C01_JobAgrees ==
  \A j \in DOMAIN job : \A t \in DOMAIN job[j].tasks :
     t \in AllTasks =>
       IF Out(t) # "none" THEN job[j].tasks[t] = Out(t)
       ELSE /\ job[j].tasks[t] \in {"Waiting", "Running"}
            /\ job[j].tasks[t] = "Running" => \E i \in DOMAIN hist[t] : hist[t][i].k = "Started"
\* an execution still alive although its time limit has passed
C01_TimeLimitStops ==
  \A f \in fut : f.t \in AllTasks /\ tinfo[f.t].tlimit > 0 =>
     \A i \in DOMAIN wstarts[f.t] :
        LET s == wstarts[f.t][i] IN (s.w = f.w /\ s.inst = f.inst /\ s.ok) => now - s.now < tinfo[f.t].tlimit
\* an execution that was stopped for its time limit never yields "Finished" (only a later execution can)
C01_TimeLimitFails ==
  \A s \in tstops : s.reason = "timeout" /\ Out(s.t) = "Finished" =>
     \E r \in ranOk : r.t = s.t /\ r.inst > s.inst

\* the at-rest form of "every accepted task ends in an outcome": when nothing is in flight, nothing runs and the scheduler
\* has nothing to do, a task without outcome is still known to the core and legitimately waiting (for a dependency, or for
\* a worker that could run it)
C01_OutcomeAtRest ==
  Quiescent => \A t \in AllTasks : Out(t) = "none" =>
     /\ t \in DOMAIN task /\ task[t].st = "W"
     /\ task[t].nd > 0 \/ ~Runnable(t)

(* C02 - nothing lost or stuck; registries agree *)
C02_Registry ==
  /\ \A t \in DOMAIN task : JobOf(t) \in DOMAIN job /\ t \in DOMAIN job[JobOf(t)].tasks
  /\ \A j \in DOMAIN job :
        {t \in DOMAIN job[j].tasks : job[j].tasks[t] \in {"Waiting", "Running"}} = {t \in DOMAIN task : JobOf(t) = j}
C02_QuiescentOk ==
  Quiescent =>
    \A t \in DOMAIN task :
       /\ task[t].st = "W"
       /\ task[t].nd > 0 \/ ~Runnable(t)
       /\ task[t].nd > 0 => \E d \in tinfo[t].deps : d \in DOMAIN task
C02_ClosedJobsComplete ==
  Quiescent => \A j \in DOMAIN job :
     (~job[j].open /\ \A t \in DOMAIN job[j].tasks : job[j].tasks[t] \in Terminal) => job[j].completed

(* C03 - dependencies *)
C03_NeverStartedAfterFailedDep ==
  \A t \in AllTasks : Out(t) \in {"Failed", "Canceled"} =>
     \A c \in TransConsumers(t) : \A i \in DOMAIN wstarts[c] : ~wstarts[c][i].ok
C03_PropagateAtRest ==
  Quiescent => \A t \in AllTasks : Out(t) \in {"Failed", "Canceled"} =>
     \A c \in TransConsumers(t) : Out(c) \in {"Aborted", "Canceled"}
C03_Unaffected ==
  \A t \in AllTasks : Out(t) = "Aborted" =>
     \/ \E a \in Ancestors(t) : Out(a) \in {"Failed", "Canceled", "Aborted"}
     \/ tinfo[t].job \in exceeded
C03_DepsCounted ==
  \A t \in DOMAIN task : task[t].st = "W" /\ t \in AllTasks =>
     task[t].nd = Cardinality({d \in tinfo[t].deps : d \in DOMAIN task /\ Out(d) # "Finished"})

(* C04 - resources held by the tasks running on a worker (the index level is module Alloc) *)
AllocAmount(a, r) == SumOver({k \in DOMAIN a : a[k].r + 1 = r}, LAMBDA k : a[k].amount)
HeldOfIndex(a, r, i) ==
  SumOver({k \in DOMAIN a : a[k].r + 1 = r},
          LAMBDA k : SumOver({m \in DOMAIN a[k].idx : a[k].idx[m].i = i},
                             LAMBDA m : IF a[k].idx[m].f = 0 THEN 10000 ELSE a[k].idx[m].f))
IndicesOf(a, r) == UNION {{a[k].idx[m].i : m \in DOMAIN a[k].idx} : k \in {k \in DOMAIN a : a[k].r + 1 = r}}
C04_RunningExclusive ==
  \A w \in DOMAIN wk \cap Workers : \A r \in 1..NRes(w) :
     /\ SumOver(wk[w].running, LAMBDA x : AllocAmount(x.alloc, r)) <= srv[w].total[r]
     /\ \A i \in UNION {IndicesOf(x.alloc, r) : x \in wk[w].running} :
          SumOver(wk[w].running, LAMBDA x : HeldOfIndex(x.alloc, r, i)) <= 10000
C04_RunningExact ==
  \A w \in DOMAIN wk \cap Workers : \A x \in wk[w].running :
     ~IsMn(x.rq) => \A r \in 1..NRes(w) : AllocAmount(x.alloc, r) = ReqAmount(x.rq, x.v, r, w)

\* "when it ends everything it held becomes available again": on every worker, what is free plus what the running tasks hold
\* is all there is (a resource that nobody holds is never missing from the pools)
C04_Conserved ==
  \A w \in DOMAIN wk \cap Workers : "free" \in DOMAIN wk[w] =>
     \A r \in 1..NRes(w) : r <= Len(wk[w].free) =>
        wk[w].free[r] + SumOver(wk[w].running, LAMBDA x : AllocAmount(x.alloc, r)) = srv[w].total[r]

(* C05 - no overbooking, placement only where runnable *)
C05_NoOverbook ==
  \A w \in Workers : srv[w].kind = "sn" =>
     \A r \in 1..NRes(w) :
        SumOver(srv[w].assigned \cap DOMAIN task,
                LAMBDA t : ReqAmount(task[t].rq, HeldVariant(t, w), r, w)) <= srv[w].total[r]
C05_PlacedCapable ==
  \A t \in DOMAIN task : task[t].st \in {"A", "X"} /\ task[t].w \in Workers =>
     TotalCovers(task[t].w, task[t].rq, task[t].v)
C05_MnExclusive ==
  \A t \in DOMAIN task : task[t].st = "M" =>
     /\ IsInjective(task[t].ws)
     /\ \A i \in DOMAIN task[t].ws :
          LET w == task[t].ws[i] IN
            /\ w \in Workers /\ srv[w].kind = "mn" /\ srv[w].mn = t /\ srv[w].root = (i = 1)
     /\ Cardinality({srv[task[t].ws[i]].group : i \in DOMAIN task[t].ws}) <= 1
     /\ Len(task[t].ws) <= Variant(task[t].rq, 0).n_nodes
C05_MnWorkersIdle ==
  \A w \in Workers : srv[w].kind = "mn" =>
     /\ srv[w].mn \in DOMAIN task /\ task[srv[w].mn].st = "M" /\ w \in SeqSet(task[srv[w].mn].ws)

(* C06 - one live execution; instance ids increase *)
C06_OneExecution ==
  \A t \in AllTasks : Cardinality({w \in DOMAIN wk : t \in RunningTids(w)}) <= 1
C06_InstMonotone ==
  \A t \in AllTasks : \A i, k \in DOMAIN wstarts[t] :
     (i < k /\ wstarts[t][i].ok /\ wstarts[t][k].ok) => wstarts[t][i].inst < wstarts[t][k].inst

(* C07 - crash counting *)
C07_CrashBounds ==
  \A t \in DOMAIN task : t \in AllTasks =>
     /\ task[t].crash >= mustCrash[t]
     /\ task[t].crash <= mayCrash[t]
C07_FailOnlyAtLimit ==
  \A t \in AllTasks : \A i \in DOMAIN hist[t] :
     /\ hist[t][i].k = "Failed" /\ hist[t][i].cls = "crash_limit" =>
          tinfo[t].climit > 0 /\ mayCrash[t] >= tinfo[t].climit
     /\ hist[t][i].k = "Failed" /\ hist[t][i].cls = "never_restart" => tinfo[t].climit = -1
C07_LimitReachedFails ==
  \A t \in AllTasks : tinfo[t].climit > 0 /\ mustCrash[t] >= tinfo[t].climit => Out(t) # "none"

(* C08 - cancel is final *)
C08_NoReportAfterAck ==
  \A t \in DOMAIN cancelAck : Len(hist[t]) = cancelAck[t] /\ Out(t) # "none"
C08_Released ==
  \A t \in DOMAIN cancelAck :
     /\ t \notin DOMAIN task
     /\ \A w \in Workers : t \notin srv[w].assigned /\ t \notin srv[w].prefilled /\ srv[w].mn # t
     /\ t \notin DOMAIN redirect
C08_StopSent ==
  \A f \in fut : f.t \in DOMAIN cancelAck /\ f.w \in DOMAIN wk => CancelInFlight(f.w, f.t)
\* "tasks of other jobs are unaffected", at rest: once a cancel was answered, a task of a job that was not canceled is never left
\* behind in the core in a state it cannot leave (still being called back from a worker, assigned but never sent, ...)
C08_OthersNotStuck ==
  (Quiescent /\ DOMAIN cancelAck # {}) =>
     \A t \in DOMAIN task : t \in AllTasks /\ tinfo[t].job \notin {tinfo[c].job : c \in DOMAIN cancelAck \cap AllTasks} =>
        task[t].st = "W"      \* (whether a waiting task should have been dispatched is C02's business, not the cancel's)
C08_NoDangling ==
  /\ \A rq \in DOMAIN queue : queue[rq].ready \subseteq DOMAIN task /\ queue[rq].pset \subseteq DOMAIN task
  /\ DOMAIN redirect \subseteq DOMAIN task
  /\ \A w \in Workers : srv[w].assigned \subseteq DOMAIN task /\ srv[w].prefilled \subseteq DOMAIN task

(* C13 - job bookkeeping *)
CountIn(j, s) == Cardinality({t \in DOMAIN job[j].tasks : job[j].tasks[t] = s})
C13_CountersMatch ==
  \A j \in DOMAIN job :
     /\ job[j].n = Cardinality(DOMAIN job[j].tasks)
     /\ job[j].cnt.running = CountIn(j, "Running")
     /\ job[j].cnt.finished = CountIn(j, "Finished")
     /\ job[j].cnt.failed = CountIn(j, "Failed")
     /\ job[j].cnt.canceled = CountIn(j, "Canceled")
     /\ job[j].cnt.aborted = CountIn(j, "Aborted")
C13_CompletedOnce ==
  \A j \in DOMAIN nCompleted :
     /\ nCompleted[j] <= 1
     /\ j \in DOMAIN job =>
          /\ job[j].completed <=> nCompleted[j] = 1
          /\ nCompleted[j] = 1 <=> (~job[j].open /\ \A t \in DOMAIN job[j].tasks : job[j].tasks[t] \in Terminal)
C13_StreamGetsCompletion ==
  Quiescent => \A i \in DOMAIN streams :
     (streams[i].resp /\ streams[i].job \in DOMAIN nCompleted /\ nCompleted[streams[i].job] >= 1) => streams[i].completed

(* C14 - max fails *)
C14_AbortAllOnExceed ==
  \A j \in exceeded : \A t \in TasksOfJob(j) : Out(t) # "none"
C14_ExceededStopped ==
  \A f \in fut : f.t \in AllTasks /\ tinfo[f.t].job \in exceeded /\ f.w \in DOMAIN wk => CancelInFlight(f.w, f.t)
C14_NoAbortWithin == C03_Unaffected

=============================================================================
