SPECIFICATION TraceSpec
INVARIANT AtEnd
POSTCONDITION TraceAccepted
CHECK_DEADLOCK FALSE
