-------------------------- MODULE AuthRetryTrace --------------------------
(***************************************************************************)
(* C20 on the worker's REAL connection path (run_worker ->                  *)
(* connect_and_register_with_retry -> do_authentication, `hqv authretry`):  *)
(* the first connection attempts are cut, the retry meets a peer that does  *)
(* or does not hold the worker's key.  One line = one case:                 *)
(* [worker_key, peer_key, dropped_first, peer_handshake_ok,                 *)
(*  registration_received, worker].                                        *)
(* The decisions must be those of module Auth for an undisturbed session    *)
(* of these two endpoints - a retry is a new session, not a weaker one.     *)
(***************************************************************************)
EXTENDS Auth, Json, IOUtils

VARIABLES l, viol
Rec == ndJsonDeserialize(IOEnv.TRACE)

W(e) == [key |-> e.worker_key, role |-> "worker", peer |-> "server", proto |-> 0]
P(e) == [key |-> e.peer_key, role |-> "server", peer |-> "worker", proto |-> 0]

LineViol(e) ==
  LET o == Session(W(e), P(e), 0, [kind |-> "error"]) IN
  \* a worker that holds a key accepts nobody who does not hold the same key - on the first attempt or on any later one
  (IF e.worker_key # "none" /\ e.peer_key # e.worker_key /\ (e.peer_handshake_ok \/ e.registration_received \/ e.worker = "connected")
   THEN {"C20_AcceptSound"} ELSE {}) \cup
  \* matching endpoints get through also after cut connections
  (IF Matching(W(e), P(e)) /\ ~(e.peer_handshake_ok /\ e.registration_received) THEN {"C20_HonestAccept"} ELSE {}) \cup
  (IF e.peer_handshake_ok = o.acceptB THEN {} ELSE {"C20_DecisionAsModel"})

TraceInit == l = 1 /\ viol = {}
TraceNext == l <= Len(Rec) /\ l' = l + 1 /\ viol' = viol \cup {[p |-> n, line |-> l] : n \in LineViol(Rec[l])}
TraceSpec == TraceInit /\ [][TraceNext]_<<l, viol>>
TraceAccepted ==
  LET d == TLCGet("stats").diameter IN
  /\ PrintT(<<"VERDICT", ToJson([lines |-> Len(Rec), diameter |-> d])>>)
  /\ d - 1 = Len(Rec)
AtEnd == l = Len(Rec) + 1 => PrintT(<<"VIOL", ToJson(viol)>>)
=============================================================================
