SPECIFICATION TraceSpec
CONSTANTS
  MaxEvents = 0
  Jobs = {}
  MaxReqs = 0
  MaxCrashes = 0
  PruneReadsBeforeFlush = FALSE
INVARIANT AtEnd
POSTCONDITION TraceAccepted
CHECK_DEADLOCK FALSE
