-------------------------- MODULE StreamModelTrace --------------------------
(***************************************************************************)
(* Binding of the state machine StreamModel to the real stream writer and  *)
(* the real reader.  `hqv stream` logs every step of a run; the engine     *)
(* flattens a run into lines, ONE MODEL ACTION PER LINE:                   *)
(*   Reset | Start | Write | CloseChan | EndReq | Writer | Report |        *)
(*   Abandon | Absorb (before a crash: the cut file) | Crash | Obs         *)
(* Obs carries what the real code shows after the step: the records the    *)
(* real parser finds in every stream file and the real reader's answers.   *)
(*  - AUX_Conf_StreamFile: every file is  disk \o (a prefix of buf) of the *)
(*    model (the buffered writer may write through at any time, a flush    *)
(*    leaves nothing behind); the model's disk is then advanced to it.     *)
(*  - AUX_Conf_ReaderIndex: the real reader's answer equals View(...) -    *)
(*    the TLA+ transcription of create_index - over the scanned records.   *)
(* Both are conformance diagnostics (the C19 verdicts on the same          *)
(* observations are produced by StreamTrace.tla).                          *)
(***************************************************************************)
EXTENDS StreamModel, Json, IOUtils

VARIABLES l, viol, lost, run

Lines == ndJsonDeserialize(IOEnv.TRACE)
tvars == <<vars, l, viol, lost, run>>

RecOf(x) == [t |-> x[1], i |-> x[2], c |-> x[3], n |-> x[4], name |-> x[5], ok |-> x[6]]
Same(a, b) == a.t = b.t /\ a.i = b.i /\ a.c = b.c /\ a.n = b.n /\ a.name = b.name
FileOf(F, w) == IF ToString(w) \in DOMAIN F THEN [j \in DOMAIN F[ToString(w)] |-> RecOf(F[ToString(w)][j])] ELSE <<>>

\* the scanned file f of worker w is explained by the model: what the model has on disk, then a prefix of what it buffers
Explains(w, f) ==
  LET all == disk[w] \o buf[w]
      nOk == Cardinality({j \in DOMAIN f : f[j].ok}) IN
  /\ \A j \in DOMAIN f : ~f[j].ok => j = Len(f)
  /\ Len(f) <= Len(all)
  /\ \A j \in DOMAIN f : Same(f[j], all[j])
  /\ \A j \in DOMAIN disk[w] : j \in DOMAIN f /\ f[j].ok = disk[w][j].ok
  /\ ~alive[w] => Len(f) = Len(disk[w])

NOk(f) == Cardinality({j \in DOMAIN f : f[j].ok})

AbsorbFiles(F, ws) ==
  IF \A w \in ws : Explains(w, FileOf(F, w))
  THEN /\ disk' = [w \in Workers |-> IF w \in ws /\ alive[w] THEN SubSeq(disk[w] \o buf[w], 1, NOk(FileOf(F, w))) ELSE disk[w]]
       /\ buf' = [w \in Workers |-> IF w \in ws /\ alive[w] THEN SubSeq(disk[w] \o buf[w], NOk(FileOf(F, w)) + 1, Len(disk[w]) + Len(buf[w])) ELSE buf[w]]
       /\ part' = [w \in Workers |-> IF w \in ws /\ alive[w] THEN (IF Len(FileOf(F, w)) > NOk(FileOf(F, w)) THEN 2 ELSE 0) ELSE part[w]]
       /\ UNCHANGED lost
  ELSE /\ lost' = TRUE
       /\ UNCHANGED <<disk, buf, part>>

ReadAsModel(F, r) ==
  LET files == [w \in Workers |-> FileOf(F, w)]
      v == View(AllRecs(files), r.task, r.chan) IN
  /\ r.found = v.found
  /\ (r.err # "") = v.err
  /\ (r.found /\ r.err = "") =>
       /\ r.inst = v.inst /\ r.finished = v.finished
       /\ Len(r.tokens) = Len(v.tokens) /\ \A j \in DOMAIN r.tokens : r.tokens[j][1] = v.tokens[j]
       /\ {r.superseded[j] : j \in DOMAIN r.superseded} = v.superseded

V(n, e) == [p |-> n, run |-> run, k |-> e.k]

TraceInit == Init /\ l = 1 /\ viol = {} /\ lost = FALSE /\ run = -1

Step(e) ==
  IF e.a = "Reset" THEN
     /\ ex' = [k \in Tasks \X Inst |-> NoExec] /\ queue' = [w \in Workers |-> <<>>] /\ buf' = [w \in Workers |-> <<>>]
     /\ part' = [w \in Workers |-> 0] /\ disk' = [w \in Workers |-> <<>>] /\ alive' = [w \in Workers |-> TRUE]
     /\ acked' = {} /\ crashes' = 0 /\ lost' = FALSE /\ run' = e.run /\ viol' = viol
  ELSE IF lost THEN UNCHANGED <<vars, viol, lost, run>>
  ELSE IF e.a = "Obs" THEN
     /\ AbsorbFiles(e.files, Workers)
     /\ viol' = viol \cup (IF lost' THEN {V("AUX_Conf_StreamFile", e)} ELSE {})
                     \cup (IF e.open_err = "" /\ e.pan = 0 /\ \E j \in DOMAIN e.read : ~ReadAsModel(e.files, e.read[j])
                           THEN {V("AUX_Conf_ReaderIndex", e)} ELSE {})
     /\ UNCHANGED <<ex, queue, alive, acked, crashes, run>>
  ELSE IF e.a = "Absorb" THEN
     /\ AbsorbFiles(e.files, {e.w})
     /\ viol' = viol \cup (IF lost' THEN {V("AUX_Conf_StreamFile", e)} ELSE {})
     /\ UNCHANGED <<ex, queue, alive, acked, crashes, run>>
  ELSE
     \* a model action; if the model does not allow it the run is given up with a divergence
     LET A == CASE e.a = "Start" -> Start(e.t, e.i, e.w)
                [] e.a = "Write" -> Write(e.t, e.i, e.c, e.n, e.name)
                [] e.a = "CloseChan" -> CloseChan(e.t, e.i, e.c)
                [] e.a = "EndReq" -> EndReq(e.t, e.i)
                [] e.a = "Writer" -> WriterStep(e.w)
                [] e.a = "Report" -> Report(e.t, e.i, e.r)
                [] e.a = "Abandon" -> Abandon(e.t, e.i)
                [] e.a = "Crash" -> Crash(e.w)
                [] OTHER -> FALSE IN
     \/ A /\ UNCHANGED <<viol, lost, run>>
     \/ ~ENABLED A /\ lost' = TRUE /\ viol' = viol \cup {V("AUX_Conf_StreamAction:" \o e.a, e)} /\ UNCHANGED <<vars, run>>

TraceNext == l <= Len(Lines) /\ l' = l + 1 /\ Step(Lines[l])
TraceSpec == TraceInit /\ [][TraceNext]_tvars
TraceAccepted ==
  LET d == TLCGet("stats").diameter IN
  /\ PrintT(<<"VERDICT", ToJson([lines |-> Len(Lines), diameter |-> d])>>)
  /\ d - 1 = Len(Lines)
AtEnd == l = Len(Lines) + 1 => PrintT(<<"VIOL", ToJson(viol)>>)
=============================================================================
