----------------------------- MODULE AllocTrace -----------------------------
(***************************************************************************)
(* Validation of the REAL worker resource allocator against module Alloc.  *)
(* One ndjson line = one transition (state before, operation, result,      *)
(* state after) of tako's ResourceAllocator, produced by the systematic    *)
(* exploration `hqv alloc`.  Transitions are judged independently.         *)
(***************************************************************************)
EXTENDS Alloc, Json, IOUtils

VARIABLES l, viol
Rec == ndJsonDeserialize(IOEnv.TRACE)

Pool(st, r) == st.pools[r + 1]
Entries(e) == SetOf(e.rq)
RaFor(e, r) == {ra \in SetOf(e.alloc) : ra.r = r}
TheRa(e, r) == CHOOSE ra \in RaFor(e, r) : TRUE

\* conservation of every index / of the sum after the operation
HeldIn(allocs, r, i) ==
  FoldSet(LAMBDA k, acc : acc + FoldSet(LAMBDA m, acc2 : acc2 + (IF allocs[k][m].r = r THEN HeldBy(allocs[k][m], i) ELSE 0), 0, DOMAIN allocs[k]),
          0, DOMAIN allocs)
SumHeld(allocs, r) ==
  FoldSet(LAMBDA k, acc : acc + FoldSet(LAMBDA m, acc2 : acc2 + (IF allocs[k][m].r = r THEN allocs[k][m].amount ELSE 0), 0, DOMAIN allocs[k]),
          0, DOMAIN allocs)
Conserved(e) ==
  \A r \in 0..(Len(e.post.pools) - 1) :
     LET ps == Pool(e.post, r)  ps0 == e.ps0[r + 1] IN
       IF ps.kind = "sum" THEN ps.sum_free + SumHeld(e.live_post, r) = ps.full
       ELSE IF ps.kind = "empty" THEN TRUE
       ELSE /\ \A i \in AllIndices(ps0) : FreeOf(ps, i) + HeldIn(e.live_post, r, i) = U
            /\ UNION {Whole(ps, g) : g \in Groups(ps)} \subseteq AllIndices(ps0)
            /\ \A g \in Groups(ps) : Whole(ps, g) \subseteq Whole(ps0, g)
            /\ \A x \in SetOf(ps.frac) : x.i \in Whole(ps0, x.g)
Exclusive(e) ==
  \A r \in 0..(Len(e.post.pools) - 1) :
     LET ps0 == e.ps0[r + 1] IN
       IF ps0.kind = "sum" THEN SumHeld(e.live_post, r) <= ps0.full
       ELSE IF ps0.kind = "empty" THEN TRUE
       ELSE \A i \in AllIndices(ps0) : HeldIn(e.live_post, r, i) <= U
ConciseMirrors(e) ==
  \A r \in 0..(Len(e.post.pools) - 1) :
     LET ps == Pool(e.post, r)  cs == e.post.concise[r + 1] IN
       IF ps.kind = "sum" THEN
          Len(cs) = 1 /\ cs[1].units = Units(ps.sum_free) /\
          (IF Frac(ps.sum_free) = 0 THEN cs[1].frac = <<>> ELSE Len(cs[1].frac) = 1 /\ cs[1].frac[1].f = Frac(ps.sum_free))
       ELSE IF ps.kind = "empty" THEN TRUE
       ELSE /\ Len(cs) = Len(ps.free)
            /\ \A g \in Groups(ps) :
                 /\ cs[g + 1].units = NWhole(ps, g)
                 /\ {<<x.i, x.f>> : x \in SetOf(cs[g + 1].frac)} = {<<x.i, x.f>> : x \in Partials(ps, g)}

AllFeasible(e) == \A en \in Entries(e) : EntryFeasible(en, Pool(e.pre, en.r), e.ps0[en.r + 1])

AllocViol(e) ==
  (IF e.enabled = e.granted THEN {} ELSE {"C16_AdmissionAgreesWithGrant"}) \cup
  (IF e.granted THEN
     (IF /\ \A en \in Entries(e) : Cardinality(RaFor(e, en.r)) = 1
         /\ \A ra \in SetOf(e.alloc) : \E en \in Entries(e) : en.r = ra.r
         /\ Len(e.alloc) = Cardinality(Entries(e))
      THEN
        (IF \A en \in Entries(e) : ExactGrant(en, TheRa(e, en.r), Pool(e.pre, en.r)) THEN {} ELSE {"C04_ExactAmount"}) \cup
        \* "the resource values it is told about are the ones it holds": the label of every held index is the value the worker's
        \* resource description gives that index
        (IF \A ra \in SetOf(e.alloc) : \A x \in SetOf(ra.idx) : x.label = x.expect THEN {} ELSE {"C04_ToldIsHeld"}) \cup
        (IF \A en \in Entries(e) : Pool(e.pre, en.r).kind = "sum" \/ ValidIndices(TheRa(e, en.r), Pool(e.pre, en.r))
         THEN {} ELSE {"C16_IndicesFreeAndSingleFraction"}) \cup
        (IF e.coupled \/ \A en \in Entries(e) : PolicyGrant(en, TheRa(e, en.r), Pool(e.pre, en.r), e.ps0[en.r + 1])
         THEN {} ELSE {"C16_PolicyGroups"}) \cup
        (IF e.coupled \/ AllFeasible(e) THEN {} ELSE {"C16_StrictGrantedOnlyAtOptimum"})
      ELSE {"C04_ExactAmount"})
   ELSE
     (IF e.coupled \/ ~AllFeasible(e) THEN {} ELSE {"C16_NoSpuriousRefusal"}) \cup
     \* "when a task ends everything it held becomes available again": on a sum resource there is no policy in the way, so a
     \* request made only of sum-resource entries that fit what is free (by the pool's own books) has to be granted
     (IF (\A en \in Entries(e) : Pool(e.pre, en.r).kind = "sum") /\ AllFeasible(e) THEN {"C04_ReturnedIsAvailable"} ELSE {}) \cup
     (IF e.post = e.pre THEN {} ELSE {"C04_RefusalChangesNothing"}))

LineViol(e) ==
  (IF e.pan = 1 THEN {"C04_NoPanic"} ELSE
    (IF e.op = "alloc" THEN AllocViol(e) ELSE {}) \cup
    (IF Conserved(e) THEN {} ELSE {"C04_Conserved"}) \cup
    (IF Exclusive(e) THEN {} ELSE {"C04_Exclusive"}) \cup
    (IF ConciseMirrors(e) THEN {} ELSE {"AUX_ConciseMirrorsPools"}))

TraceInit == l = 1 /\ viol = {}
TraceNext ==
  /\ l <= Len(Rec)
  /\ l' = l + 1
  /\ viol' = viol \cup {[p |-> n, line |-> l, d |-> Rec[l].d] : n \in LineViol(Rec[l])}
TraceSpec == TraceInit /\ [][TraceNext]_<<l, viol>>
TraceAccepted ==
  LET d == TLCGet("stats").diameter IN
  /\ PrintT(<<"VERDICT", ToJson([lines |-> Len(Rec), diameter |-> d])>>)
  /\ d - 1 = Len(Rec)
AtEnd == l = Len(Rec) + 1 => PrintT(<<"VIOL", ToJson(viol)>>)
=============================================================================
