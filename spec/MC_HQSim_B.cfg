SPECIFICATION SimSpec
CONSTANTS
  WorkerCpus <- B_Workers
  LateWorkers <- B_Late
  WorkerGroup <- B_Groups
  WorkerLife <- B_Life
  MaxTicks = 0
  Menu <- B_Menu
  OpenJobs <- B_Open
  Classes <- B_Classes
  MaxLosses = 1
  MaxCancels = 0
  MaxFails = 1
  MaxLaunchFails = 1
  PfReserve = 0
  PfMax = 1
  Eager = FALSE
  Journaling = FALSE
  SlowStop = FALSE
CHECK_DEADLOCK FALSE
INVARIANTS
  NoPanic
  C01_OutcomeOnce
  C01_FinishAfterStart
  C01_FinishedRan
  C01_JobAgrees
  C02_Registry
  C02_ClosedJobsComplete
  C03_NeverStartedAfterFailedDepModLate
  C03_PropagateAtRestModLate
  C03_Unaffected
  C04_RunningExclusive
  C04_RunningExact
  C05_NoOverbookModHandover
  C05_PlacedCapable
  C06_OneExecution
  C06_InstMonotone
  C07_CrashBounds
  C07_FailOnlyAtLimit
  C07_LimitReachedFails
  C08_NoReportAfterAck
  C08_Released
  C08_StopSent
  C08_NoDangling
  C13_CountersMatch
  C13_CompletedOnce
  C14_AbortAllOnExceed
  C14_ExceededStopped
  C14_NoAbortWithin
  C05_MnExclusive
  C05_MnWorkersIdle
