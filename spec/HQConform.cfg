SPECIFICATION ConfSpec
CONSTANTS
  WorkerCpus = 0
  LateWorkers = 0
  WorkerGroup = 0
  WorkerLife = 0
  MaxTicks = 0
  Menu = 0
  OpenJobs = 0
  Classes = 0
  MaxLosses = 0
  MaxCancels = 0
  MaxFails = 0
  MaxLaunchFails = 0
  PfReserve = 0
  PfMax = 1
  Eager = FALSE
  Journaling = FALSE
  SlowStop = FALSE
INVARIANT ConfAtEnd
POSTCONDITION TraceAccepted
CHECK_DEADLOCK FALSE
