SPECIFICATION Spec
CONSTANTS
  Delays <- DelaysVal
  MaxSubFails = 2
  MaxAllocFails = 2
  MaxQueuedErrs = 1
  MaxRunningErrs = 1
  Backlog = 2
  MaxPer = 2
  MaxW = 3
  MaxAllocs = 2
  MaxTime = 2
  Workers = {1, 2}
  MaxDemand = 2
  MaxMn = 2
CHECK_DEADLOCK FALSE
INVARIANTS
  C17_BacklogBound
  C17_WorkerBound
  C17_AllocSize
  C17_BackoffCoversFailures
  C18_RunningShape
  C18_FinishedShape
  C18_StartEndOnce
  C18_ConnectedExact
PROPERTIES
  C17_SubmitOnlyWhenAllowed
  C17_ResumeHasEffect
  C18_Monotone
