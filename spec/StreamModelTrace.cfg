SPECIFICATION TraceSpec
CONSTANTS
  Workers = {1, 2, 3}
  Tasks = {1, 2, 3}
  MaxInst = 3
  MaxChunks = 4
  MaxCrashes = 99
  Chans = {0, 1}
  FlushOnlyIfIdle = FALSE
INVARIANT AtEnd
POSTCONDITION TraceAccepted
CHECK_DEADLOCK FALSE
