----------------------------- MODULE HQConform -----------------------------
(***************************************************************************)
(* Transition conformance of the real code with the model.                 *)
(*                                                                         *)
(* HQTrace binds the variables of HQ to the projection of the real state   *)
(* logged after every environment step of the harness.  Here, for every    *)
(* step whose action the model covers, the transition FUNCTIONS of HQModel *)
(* (the reactor entry points, the job layer, the worker state machine) are *)
(* applied to the logged state BEFORE the step and the logged arguments,   *)
(* and the result is compared with the logged state AFTER the step: core   *)
(* tasks, queues, redirects, server-side worker books, scheduling flag,    *)
(* job layer, and the messages appended to every connection.               *)
(*                                                                         *)
(* A difference is recorded under the name AUX_Conf_<Action>: it is a      *)
(* diagnostic ("the model no longer describes the code at this step"),     *)
(* never a verdict about a property.  On the pinned tree there is none.    *)
(***************************************************************************)
EXTENDS HQTrace, HQModel

cvars == <<tvars, panic, wkq, submitted, budget, armedFail, drift, journal, late>>
VARIABLES ncomp, pf   \* ncomp: steps compared; pf: proactive-filling configuration of the current run (from its Reset line)

\* ---- what the model covers
SnOnly == \A w \in DOMAIN srv : ~srv[w].stopping     \* (multi-node tasks are covered; a stopping worker is not)
NoTime == \A w \in DOMAIN wk : wk[w].remaining < 0 /\ ~wk[w].stopped
CpuOnly == \A i \in DOMAIN classes : \A v \in DOMAIN classes[i] : \A k \in DOMAIN classes[i][v].entries : classes[i][v].entries[k].r = 0

\* ---- comparison modulo the order of ids inside a message
MsgEq(a, b) ==
  /\ a.k = b.k
  /\ CASE a.k \in {"Retract", "Cancel", "RetractResponse"} -> SeqSet(a.ids) = SeqSet(b.ids) /\ Len(a.ids) = Len(b.ids)
       [] a.k = "Compute" -> Len(a.tasks) = Len(b.tasks) /\
             {[t |-> a.tasks[i].t, inst |-> a.tasks[i].inst, v |-> a.tasks[i].v, rq |-> a.tasks[i].rq] : i \in DOMAIN a.tasks}
             = {[t |-> b.tasks[i].t, inst |-> b.tasks[i].inst, v |-> b.tasks[i].v, rq |-> b.tasks[i].rq] : i \in DOMAIN b.tasks}
       [] a.k = "Update" -> Len(a.ups) = Len(b.ups) /\ \A i \in DOMAIN a.ups :
             /\ a.ups[i].k = b.ups[i].k
             /\ IF a.ups[i].k = "Enable" THEN a.ups[i].rq = b.ups[i].rq /\ a.ups[i].v = b.ups[i].v
                ELSE a.ups[i].t = b.ups[i].t /\ (a.ups[i].k \in {"Running", "RunningPrefilled", "Reject"} => a.ups[i].v = b.ups[i].v)
       [] OTHER -> TRUE
\* a ComputeTasks batch that is too large for one frame is split by the server (ComputeTasksBuilder); the model sends it as one message
MergeCompute(s) ==
  FoldLeft(LAMBDA acc, m : IF acc # <<>> /\ m.k = "Compute" /\ Last(acc).k = "Compute"
                           THEN [acc EXCEPT ![Len(acc)] = [k |-> "Compute", tasks |-> acc[Len(acc)].tasks \o m.tasks]]
                           ELSE Append(acc, m), <<>>, s)
SeqMsgEq(s0, t0) == LET s == MergeCompute(s0)  t == MergeCompute(t0) IN Len(s) = Len(t) /\ \A i \in DOMAIN s : MsgEq(s[i], t[i])

\* messages of channel ch sent to/by worker w in this step, as logged
SentTo(e, ch, w) ==
  LET idx == SelectSeq([i \in DOMAIN e.sent |-> i], LAMBDA i : e.sent[i].ch = ch /\ e.sent[i].w = w)
  IN [k \in DOMAIN idx |-> e.sent[idx[k]].m]

NormUps(ups) == [i \in DOMAIN ups |-> IF ups[i].k = "Failed" THEN [k |-> "Failed", t |-> ups[i].t, cls |-> "task"] ELSE ups[i]]

\* ---- the core after a server-side step agrees with the logged state
CoreAgrees(C, e) ==
  /\ C.pn = ""
  /\ C.task = TaskOf(e.st)
  /\ C.queue = QueueOf(e.st)
  /\ C.redirect = RedirectOf(e.st)
  /\ C.srv = SrvOf(e.st)
  /\ C.ns = e.st.srv.need_sched
  /\ \A w \in DOMAIN C.out : SeqMsgEq(C.out[w], SentTo(e, "s2w", w))
JobAgrees(J, e) == J.pn = "" /\ J.job = JobOfSt(e.st)

ConfW2S(e) ==
  LET m == e.args.m  w == e.args.w IN
  IF m.k = "Update" THEN
     LET r == OnTaskUpdate(CoreRec, JobRec, w, NormUps(m.ups)) IN CoreAgrees(r[1], e) /\ JobAgrees(r[2], e)
  ELSE IF m.k = "RetractResponse" THEN CoreAgrees(OnRetractResponse(CoreRec, w, m.ids), e) /\ JobOfSt(e.st) = job
  ELSE TRUE

ConfCancel(e) ==
  LET j == e.args.job IN
  IF j \notin DOMAIN job \/ ~e.resp.answered THEN TRUE
  ELSE LET ids == NonTerminal(job[j])
           C == IF ids = {} THEN CoreRec ELSE OnCancel(CoreRec, ids)
           J1 == IF ids = {} THEN JobRec
                 ELSE CheckTermination(JEv(JEv([JobRec EXCEPT !.job[j] = SetStates(@, ids, "Canceled")], [k |-> "JobCancel", j |-> j]),
                                           [k |-> "TasksCanceled", ts |-> SortedIds(ids)]), j)
       IN CoreAgrees(C, e) /\ JobAgrees(J1, e)

ConfLose(e) ==
  LET w == e.args.w IN
  IF w \notin DOMAIN srv THEN TRUE
  ELSE \E ord \in SetToSeqs(RunningOn(CoreRec, w)) :
          LET r == OnRemoveWorker(CoreRec, JobRec, w, e.args.fail, ord) IN CoreAgrees(r[1], e) /\ JobAgrees(r[2], e)

\* on_new_worker (ConnectWorker of the model): the new worker is there with everything free and nothing assigned, scheduling is
\* requested, and nothing else of the core changes
ConfConnect(e) ==
  LET w == e.resp.w  post == SrvOf(e.st) IN
  /\ w \notin DOMAIN srv /\ w \in DOMAIN post
  /\ post[w].free = post[w].total /\ post[w].assigned = {} /\ post[w].prefilled = {} /\ post[w].blocked = {}
  /\ post[w].kind = "sn" /\ ~post[w].stopping /\ post[w].mn = 0 /\ ~post[w].root
  /\ [x \in DOMAIN post \ {w} |-> post[x]] = srv
  /\ e.st.srv.need_sched
  /\ TaskOf(e.st) = task /\ QueueOf(e.st) = queue /\ RedirectOf(e.st) = redirect /\ JobOfSt(e.st) = job

\* ---- scheduler step: the real placement must be one the model allows (tasks handed out in queue order, only onto workers
\* whose free resources cover them), and mapping / proactive filling / messages must be what the model computes from it
Placeable(t) ==
  \/ task[t].st = "W" /\ task[t].nd = 0 /\ t \in queue[task[t].rq].ready
  \/ task[t].st = "R" /\ t \in queue[task[t].rq].ready
  \/ task[t].st = "P" /\ t \in queue[task[t].rq].pset
ConfSchedule(e, reserve, pfmax) ==
  LET post == TaskOf(e.st)  red == RedirectOf(e.st)
      taken == {t \in DOMAIN task \cap DOMAIN post :
                  \/ task[t].st = "W" /\ post[t].st = "A"
                  \/ task[t].st = "P" /\ post[t].st = "R" /\ t \in DOMAIN red
                  \/ task[t].st = "R" /\ t \notin DOMAIN redirect /\ t \in DOMAIN red}
      m == [t \in taken |-> IF post[t].st = "A" THEN <<post[t].w, post[t].v>> ELSE <<red[t].w, red[t].v>>]
      nOf(rq) == Cardinality({t \in taken : task[t].rq = rq})
      newM == {t \in DOMAIN task \cap DOMAIN post : task[t].st = "W" /\ post[t].st = "M"}
      mn == [rq \in MnClasses |-> IF \E t \in newM : task[t].rq = rq THEN post[CHOOSE t \in newM : task[t].rq = rq].ws ELSE <<>>]
  IN IF \E rq \in DOMAIN queue : Cardinality({t \in newM : task[t].rq = rq}) > 1 THEN TRUE   \* the model places one per class and round
     ELSE /\ \A t \in taken : Placeable(t)
          /\ \A t \in newM : task[t].rq \in MnClasses /\ t = MnTop(task[t].rq)
          /\ Fits(m)
          /\ \E ch \in ChoicesPerClass(DOMAIN queue) :
               /\ \A rq \in DOMAIN queue : ch[rq][2] = nOf(rq) /\ {ch[rq][1][i] : i \in 1..ch[rq][2]} = {t \in taken : task[t].rq = rq}
               /\ LET takenSeq == FoldSeqLeft(LAMBDA acc, rq : acc \o SubSeq(ch[rq][1], 1, ch[rq][2]), <<>>, SortedIds(DOMAIN queue))
                      q2 == [rq \in DOMAIN queue |-> QueueAfterTake(queue[rq], ch[rq][1], ch[rq][2])]
                  IN \E wo \in SetToSeqs(DOMAIN srv) :
                        LET C1 == ApplyMn(ApplyMapping([CoreRec EXCEPT !.queue = q2], takenSeq, m), mn)
                            C3 == [SendMapping(ProactiveFill(C1, wo, reserve, pfmax)) EXCEPT !.ns = FALSE]
                        IN CoreAgrees(C3, e)

\* ---- submit: the core part (on_new_tasks)
ConfSubmit(e) ==
  IF ~("ok" \in DOMAIN e.resp /\ e.resp.ok) THEN TRUE
  ELSE LET nt == NewTaskInfo(e, tinfo)
           j == e.resp.job
           ids == [i \in DOMAIN e.resp.tasks |-> j * 1000 + e.resp.tasks[i]]
       IN IF SeqSet(ids) # DOMAIN nt \/ ids = <<>> THEN TRUE
          ELSE LET C == OnNewTasks(CoreRec, ids, nt) IN
               /\ C.pn = "" /\ C.task = TaskOf(e.st) /\ C.queue = QueueOf(e.st) /\ C.srv = SrvOf(e.st) /\ C.redirect = RedirectOf(e.st)
               /\ \A w \in DOMAIN C.out : SeqMsgEq(C.out[w], SentTo(e, "s2w", w))

\* ---- worker side
WkqOf(st, w) ==
  LET r == CHOOSE r \in SeqSet(st.wk) : r.id = w
  IN [rq \in 0..(Len(classes) - 1) |->
        LET bs == SelectSeq(r.backlog, LAMBDA b : b.rq = rq)
        IN IF bs = <<>> THEN <<>> ELSE [i \in DOMAIN bs[1].tasks |-> [t |-> bs[1].tasks[i].t, inst |-> bs[1].tasks[i].inst]]]
RunKey(x) == [t |-> x.t, inst |-> x.inst, v |-> x.v, rq |-> x.rq]
WorkerAgrees(W, w, e) ==
  /\ {RunKey(x) : x \in W.running} = {RunKey(x) : x \in WkOf(e.st)[w].running}
  /\ \A rq \in DOMAIN W.wq : W.wq[rq] = WkqOf(e.st, w)[rq]
  /\ W.blocked = WkOf(e.st)[w].blocked
  /\ SeqMsgEq(W.msgs, SentTo(e, "w2s", w))
\* the worker record of the model from the logged state before the step (the pre-state backlog order comes from the previous line)
WRecOf(w, pre) == [running |-> wk[w].running, wq |-> WkqOf(pre, w), blocked |-> wk[w].blocked, cur |-> <<>>, msgs |-> <<>>, starts |-> <<>>,
                   stops |-> <<>>, fut |-> fut, armed |-> {}, ok |-> TRUE, used |-> FALSE, rem |-> wk[w].remaining]

ConfS2W(e, pre) ==
  LET m == e.args.m  w == e.args.w IN
  IF w \notin DOMAIN wk \/ w \notin DOMAIN srv \/ w \notin DOMAIN WkOf(e.st) THEN TRUE
  ELSE IF m.k = "Compute" THEN
     \* launch failures are decided by the harness: the model is told which launches failed
     LET failed == {e.starts[i].t : i \in {i \in DOMAIN e.starts : ~e.starts[i].ok}}
     IN WorkerAgrees(WCompute([WRecOf(w, pre) EXCEPT !.armed = failed], w, m.tasks), w, e)
  ELSE IF m.k = "Retract" THEN
     LET ids == SeqSet(m.ids)
         W == WRecOf(w, pre)
         removed == {t \in ids : \E rq \in DOMAIN W.wq : \E i \in DOMAIN W.wq[rq] : W.wq[rq][i].t = t}
         W1 == [W EXCEPT !.wq = [rq \in DOMAIN W.wq |-> SelectSeq(W.wq[rq], LAMBDA x : x.t \notin ids)],
                         !.msgs = IF m.ids = <<>> THEN <<>> ELSE <<[k |-> "RetractResponse", ids |-> SortedIds(removed)]>>]
     IN WorkerAgrees(W1, w, e)
  ELSE IF m.k = "Cancel" THEN
     LET ids == SeqSet(m.ids)
         W == WRecOf(w, pre)
         failed == {e.starts[i].t : i \in {i \in DOMAIN e.starts : ~e.starts[i].ok}}
         W1 == [W EXCEPT !.wq = [rq \in DOMAIN W.wq |-> SelectSeq(W.wq[rq], LAMBDA x : x.t \notin ids)], !.armed = failed]
         hit == SetToSortSeq({x \in W1.running : x.t \in ids}, LAMBDA a, b : a.t < b.t)
         \* (in runs with slow stops the executions that were hit stay in `running` until their step Die)
         W2 == IF pf.slow THEN W1 ELSE FoldSeqLeft(LAMBDA WW, x : WTaskEnd(WW, w, x, "none"), W1, hit)
     IN \* several running tasks ending in one step report in the order the runtime polls them: compare only single hits exactly
        IF Len(hit) <= 1 THEN WorkerAgrees(W2, w, e)
        ELSE {RunKey(x) : x \in W2.running} = {RunKey(x) : x \in WkOf(e.st)[w].running}
  ELSE TRUE

ConfExit(e, pre) ==
  LET w == e.args.w IN
  IF w \notin DOMAIN wk \/ w \notin DOMAIN WkOf(e.st) THEN TRUE
  ELSE LET xs == {x \in wk[w].running : x.t = e.args.t /\ x.inst = e.args.inst}
           failed == {e.starts[i].t : i \in {i \in DOMAIN e.starts : ~e.starts[i].ok}}
       IN IF xs = {} THEN TRUE
          ELSE LET x == CHOOSE x \in xs : TRUE IN
               WorkerAgrees(WTaskEnd([WRecOf(w, pre) EXCEPT !.armed = failed], w, x, IF e.args.ok THEN "Finished" ELSE "Failed"), w, e)

\* the process of a stopped execution is gone (runs with slow stops): handle_task_future without a report
ConfDie(e, pre) ==
  LET w == e.args.w IN
  IF w \notin DOMAIN wk \/ w \notin DOMAIN WkOf(e.st) THEN TRUE
  ELSE LET xs == {x \in wk[w].running : x.t = e.args.t /\ x.inst = e.args.inst}
           failed == {e.starts[i].t : i \in {i \in DOMAIN e.starts : ~e.starts[i].ok}}
       IN IF xs = {} THEN TRUE
          ELSE LET x == CHOOSE x \in xs : TRUE IN
               WorkerAgrees(WTaskEnd([WRecOf(w, pre) EXCEPT !.armed = failed], w, x, "none"), w, e)

\* names of the conformance checks violated by line e (pre = logged state of the previous line)
ConfViol(e, pre) ==
  IF ~(SnOnly /\ NoTime) THEN {}
  ELSE (IF e.a = "Schedule" /\ ~ConfSchedule(e, pf.reserve, pf.max) THEN {"AUX_Conf_Schedule"} ELSE {})
       \cup (IF e.a = "Submit" /\ ~ConfSubmit(e) THEN {"AUX_Conf_Submit"} ELSE {})
       \cup (IF e.a = "W2S" /\ ~ConfW2S(e) THEN {"AUX_Conf_W2S"} ELSE {})
       \cup (IF e.a = "Cancel" /\ ~ConfCancel(e) THEN {"AUX_Conf_Cancel"} ELSE {})
       \cup (IF e.a = "Lose" /\ ~ConfLose(e) THEN {"AUX_Conf_Lose"} ELSE {})
       \cup (IF e.a = "Connect" /\ ~ConfConnect(e) THEN {"AUX_Conf_Connect"} ELSE {})
       \cup (IF e.a = "S2W" /\ CpuOnly /\ ~ConfS2W(e, pre) THEN {"AUX_Conf_S2W"} ELSE {})
       \cup (IF e.a = "Exit" /\ CpuOnly /\ ~ConfExit(e, pre) THEN {"AUX_Conf_Exit"} ELSE {})
       \cup (IF e.a = "Die" /\ CpuOnly /\ ~ConfDie(e, pre) THEN {"AUX_Conf_Die"} ELSE {})

\* number of steps compared (for the evidence)
Compared(e) == SnOnly /\ NoTime /\ e.a \in {"W2S", "Cancel", "Lose", "Connect", "S2W", "Exit", "Die", "Schedule", "Submit"}

ConfInit == TraceInit /\ panic = "" /\ wkq = <<>> /\ submitted = {} /\ budget = <<>> /\ armedFail = {} /\ drift = {} /\ journal = <<>> /\ late = {} /\ ncomp = 0 /\ pf = [reserve |-> 0, max |-> 1, slow |-> FALSE]

ConfNext ==
  /\ UNCHANGED <<panic, wkq, submitted, budget, armedFail, drift, journal, late>>
  /\ l <= Len(Rec)
  /\ LET e == Rec[l]
         live == alive /\ e.a # "Reset" /\ e.pan = 0 /\ l > 1
         cv == IF live THEN ConfViol(e, Rec[l - 1].st) ELSE {}
     IN /\ pf' = IF e.a = "Reset" THEN [reserve |-> e.args.profile.reserve, max |-> e.args.profile.pf_max, slow |-> e.args.profile.slow_stop] ELSE pf
        /\ ncomp' = ncomp + (IF live /\ Compared(e) THEN 1 ELSE 0)
        /\ TraceNextWith({V(n, e) : n \in cv})

ConfSpec == ConfInit /\ [][ConfNext]_<<cvars, ncomp, pf>>
ConfAtEnd == l = Len(Rec) + 1 => PrintT(<<"VIOL", ToJson(viol)>>) /\ PrintT(<<"NCOMP", ToJson([n |-> ncomp])>>)
=============================================================================
