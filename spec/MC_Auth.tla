------------------------------ MODULE MC_Auth ------------------------------
(* Exhaustive check of the handshake model: the properties are closed formulas over all configurations and all single *)
(* adversary moves, evaluated by TLC as assumptions; the scenario list for the replay into the real code is printed.  *)
EXTENDS Auth, Json

VARIABLE done
Init == done = FALSE
Next == done' = TRUE
Spec == Init /\ [][Next]_done

Props == HonestAccept /\ MismatchRefuses /\ AcceptSoundReq /\ AcceptSoundResp /\ NoAcceptOnForeignResponse
Inv == Props

NScenarios == Cardinality(Configs) * (1 + 2 * Cardinality(AllRequests) + 2 * Cardinality(ResponseSources))
Report == done => PrintT(<<"MCAUTH", ToJson([configs |-> Cardinality(Configs), scenarios |-> NScenarios])>>)
=============================================================================
