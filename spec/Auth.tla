-------------------------------- MODULE Auth --------------------------------
(***************************************************************************)
(* The connection handshake of tako (transfer/auth.rs) with a symbolic     *)
(* man-in-the-middle (C20).                                                *)
(*                                                                         *)
(* Each endpoint E = [key, role, peer, proto] sends a request              *)
(*   [proto, role, ch]         ch = "none" (no key) or its fresh challenge *)
(* answers the request it receives with a response                         *)
(*   [kind |-> "noauth"] / [kind |-> "error"] /                            *)
(*   [kind |-> "enc", key, role, ch]   = Seal_key(role ++ ch)              *)
(* and finally verifies the response it receives.  Cryptography is         *)
(* symbolic: a sealed term opens only under its own key, the adversary     *)
(* holds no key and cannot build sealed terms, a tampered ciphertext or    *)
(* nonce ("garbage") opens under no key.                                   *)
(*                                                                         *)
(* Slots: 1 = A->B request, 2 = B->A request, 3 = A->B response,           *)
(* 4 = B->A response.  The adversary replaces AT MOST ONE slot by anything *)
(* it can produce: any plaintext request (modified / forged / reflected /  *)
(* replayed - requests are not authenticated, so every field combination   *)
(* is available), a forged noauth/error response, a tampered response, or  *)
(* a genuine sealed response of this session (reflection, swap) or of a    *)
(* second honest session between endpoints with the same configuration     *)
(* (cross-session replay).                                                 *)
(***************************************************************************)
EXTENDS Naturals, Sequences, FiniteSets, TLC

Keys == {"k1", "k2", "none"}
Roles == {"server", "worker", "client"}
Protos == {0, 1}
\* realistic endpoint kinds (role, expected peer role)
Kinds == {<<"server", "worker">>, <<"worker", "server">>, <<"server", "client">>, <<"client", "server">>}
Challenges == {"cA", "cB", "cA2", "cB2", "cX", "none"}

Endpoint(k, kind, p) == [key |-> k, role |-> kind[1], peer |-> kind[2], proto |-> p]

MakeReq(e, c) == [proto |-> e.proto, role |-> e.role, ch |-> IF e.key = "none" THEN "none" ELSE c]

\* <<response, error flag remembered by the endpoint>>
MakeResp(e, req) ==
  IF req.proto # e.proto \/ req.role # e.peer THEN <<[kind |-> "error"], TRUE>>
  ELSE IF req.ch = "none" /\ e.key = "none" THEN <<[kind |-> "noauth"], FALSE>>
  ELSE IF req.ch # "none" /\ e.key # "none" THEN <<[kind |-> "enc", key |-> e.key, role |-> e.role, ch |-> req.ch], FALSE>>
  ELSE <<[kind |-> "error"], TRUE>>

Finish(e, c, err, resp) ==
  /\ ~err
  /\ CASE resp.kind = "error" -> FALSE
       [] resp.kind = "garbage" -> FALSE
       [] resp.kind = "noauth" -> e.key = "none"
       [] resp.kind = "enc" -> e.key # "none" /\ resp.key = e.key /\ resp.role = e.peer /\ resp.ch = c
       [] OTHER -> FALSE

AllRequests == [proto : Protos, role : Roles, ch : Challenges]

\* outcome of a session between a and b in which slot s (0 = none) is replaced by message m
Session(a, b, s, m) ==
  LET reqA == MakeReq(a, "cA")  reqB == MakeReq(b, "cB")
      toB1 == IF s = 1 THEN m ELSE reqA
      toA2 == IF s = 2 THEN m ELSE reqB
      ra == MakeResp(a, toA2)  rb == MakeResp(b, toB1)
      toB3 == IF s = 3 THEN m ELSE ra[1]
      toA4 == IF s = 4 THEN m ELSE rb[1]
  IN [acceptA |-> Finish(a, "cA", ra[2], toA4), acceptB |-> Finish(b, "cB", rb[2], toB3),
      respA |-> ra[1], respB |-> rb[1], gotA |-> toA4, gotB |-> toB3]

\* the honest reference session (same configuration, fresh challenges) whose messages can be replayed
Other(a, b) ==
  LET reqA == MakeReq(a, "cA2")  reqB == MakeReq(b, "cB2") IN
  [respA |-> MakeResp(a, reqB)[1], respB |-> MakeResp(b, reqA)[1]]

\* responses the adversary can deliver: forged plaintext ones, a tampered one, genuine sealed ones it has seen
ResponseSources == {"forge_noauth", "forge_error", "tamper", "own_A", "own_B", "other_A", "other_B"}
ResponseFrom(a, b, src) ==
  LET undisturbed == Session(a, b, 0, [kind |-> "error"]) IN
  CASE src = "forge_noauth" -> [kind |-> "noauth"]
    [] src = "forge_error" -> [kind |-> "error"]
    [] src = "tamper" -> [kind |-> "garbage"]
    [] src = "own_A" -> undisturbed.respA
    [] src = "own_B" -> undisturbed.respB
    [] src = "other_A" -> Other(a, b).respA
    [] src = "other_B" -> Other(a, b).respB

Matching(a, b) == a.key = b.key /\ a.proto = b.proto /\ a.role = b.peer /\ b.role = a.peer

(* The properties, over every configuration and every single adversary move *)
Configs == {<<Endpoint(ka, ia, pa), Endpoint(kb, ib, pb)>> : ka \in Keys, kb \in Keys, ia \in Kinds, ib \in Kinds, pa \in Protos, pb \in Protos}

HonestAccept == \A c \in Configs : Matching(c[1], c[2]) =>
  LET o == Session(c[1], c[2], 0, [kind |-> "error"]) IN o.acceptA /\ o.acceptB
MismatchRefuses == \A c \in Configs : ~Matching(c[1], c[2]) =>
  LET o == Session(c[1], c[2], 0, [kind |-> "error"]) IN ~o.acceptA /\ ~o.acceptB

\* what an accepting endpoint with a key has verified
Sound(e, c, got, req) ==
  e.key # "none" => (got.kind = "enc" /\ got.key = e.key /\ got.role = e.peer /\ got.ch = c)
\* with any single replaced slot an endpoint that holds a key accepts only a peer that is the other honest endpoint with
\* the same key, the complementary role and - unless the adversary rewrote the unauthenticated request - the same protocol
AcceptSoundReq ==
  \A c \in Configs : \A s \in {1, 2} : \A m \in AllRequests :
     LET o == Session(c[1], c[2], s, m) IN
       /\ (o.acceptA /\ c[1].key # "none") => (c[2].key = c[1].key /\ c[2].role = c[1].peer /\ (s = 2 \/ c[2].proto = c[1].proto))
       /\ (o.acceptB /\ c[2].key # "none") => (c[1].key = c[2].key /\ c[1].role = c[2].peer /\ (s = 1 \/ c[1].proto = c[2].proto))
AcceptSoundResp ==
  \A c \in Configs : \A s \in {3, 4} : \A src \in ResponseSources :
     LET o == Session(c[1], c[2], s, ResponseFrom(c[1], c[2], src)) IN
       /\ (o.acceptA /\ c[1].key # "none") => (c[2].key = c[1].key /\ c[2].role = c[1].peer /\ c[2].proto = c[1].proto)
       /\ (o.acceptB /\ c[2].key # "none") => (c[1].key = c[2].key /\ c[1].role = c[2].peer /\ c[1].proto = c[2].proto)
\* a replaced response never makes its receiver accept unless it is the very response the peer produced for it
NoAcceptOnForeignResponse ==
  \A c \in Configs : \A src \in ResponseSources :
     /\ LET o == Session(c[1], c[2], 4, ResponseFrom(c[1], c[2], src)) IN
          (o.acceptA /\ c[1].key # "none") => ResponseFrom(c[1], c[2], src) = Session(c[1], c[2], 0, [kind |-> "error"]).respB
     /\ LET o == Session(c[1], c[2], 3, ResponseFrom(c[1], c[2], src)) IN
          (o.acceptB /\ c[2].key # "none") => ResponseFrom(c[1], c[2], src) = Session(c[1], c[2], 0, [kind |-> "error"]).respA
=============================================================================
