SPECIFICATION FairSpec
CONSTANTS
  WorkerCpus <- R_Workers
  LateWorkers <- R_Late
  WorkerGroup <- R_Groups
  WorkerLife <- R_Life
  MaxTicks = 0
  Menu <- R_Menu
  OpenJobs <- R_Open
  Classes <- R_Classes
  MaxLosses = 0
  MaxCancels = 2
  MaxFails = 0
  MaxLaunchFails = 0
  PfReserve = 0
  PfMax = 1
  Eager = TRUE
  Journaling = FALSE
  SlowStop = TRUE
CHECK_DEADLOCK FALSE
PROPERTIES
  L_ComesToRest
  L_RetractResolves
  L_AssignedMoves
