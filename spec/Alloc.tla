------------------------------- MODULE Alloc -------------------------------
(***************************************************************************)
(* Worker resource allocator: what a grant has to look like (C04, C16).    *)
(*                                                                         *)
(* A pool state `ps` of one resource is a record                           *)
(*   [kind \in {"indices","groups","sum"}, full, free : Seq(Seq(index)),   *)
(*    frac : Seq([i, g, f]), sum_free]                                     *)
(* free[g+1] are the whole free indices of group g (0-based group ids as   *)
(* in the code), frac lists partially used indices with their free part.   *)
(* Amounts are integers in 1/10000 units (U == 10000 is one whole index).  *)
(* A grant for one resource is [r, amount, idx : Seq([i, g, f])] with      *)
(* f = 0 for a whole index.                                                *)
(***************************************************************************)
EXTENDS Naturals, Integers, Sequences, FiniteSets, FiniteSetsExt, SequencesExt, TLC

U == 10000
SetOf(s) == {s[i] : i \in DOMAIN s}
Units(a) == a \div U
Frac(a) == a % U

Groups(ps) == 0..(Len(ps.free) - 1)
Whole(ps, g) == SetOf(ps.free[g + 1])
NWhole(ps, g) == Len(ps.free[g + 1])
Partials(ps, g) == {x \in SetOf(ps.frac) : x.g = g /\ x.f > 0}
\* group g has a partially used index that can give f
FracOk(ps, g, f) == \E x \in Partials(ps, g) : x.f >= f
TotalWhole(ps) == FoldSet(LAMBDA g, acc : acc + NWhole(ps, g), 0, Groups(ps))
MaxPartial(ps) == LET S == {x.f : x \in SetOf(ps.frac)} IN IF S = {} THEN 0 ELSE Max(S)

(* Is there an allocation of `amount` that touches exactly the groups S and nothing else? *)
FeasibleOn(ps, amount, S) ==
  LET u == Units(amount)  f == Frac(amount)
      w(g) == NWhole(ps, g)
      sumw == FoldSet(LAMBDA g, acc : acc + w(g), 0, S)
  IN /\ S # {} /\ S \subseteq Groups(ps)
     /\ IF f = 0
        THEN /\ sumw >= u /\ Cardinality(S) <= u /\ \A g \in S : w(g) >= 1
        ELSE \E h \in S :
               \* the fraction comes from a partially used index of h ...
               \/ /\ FracOk(ps, h, f)
                  /\ sumw >= u /\ \A g \in S \ {h} : w(g) >= 1
                  /\ Cardinality(S \ {h}) <= u
               \* ... or a whole index of h is split
               \/ /\ sumw >= u + 1 /\ \A g \in S : w(g) >= 1
                  /\ Cardinality(S) <= u + 1
FeasibleSets(ps, amount) == {S \in SUBSET Groups(ps) : FeasibleOn(ps, amount, S)}
Feasible(ps, amount) ==
  IF ps.kind = "sum" THEN amount <= ps.sum_free
  ELSE FeasibleSets(ps, amount) # {}
MinGroups(ps, amount) == Min({Cardinality(S) : S \in FeasibleSets(ps, amount)})
MaxGroups(ps, amount) == Max({Cardinality(S) : S \in FeasibleSets(ps, amount)})

\* the empty (all free) state of a pool, given the state of the empty worker
EntryAmount(e, ps) == IF e.policy = "all" THEN ps.full ELSE e.amount
EverythingFree(ps, ps0) ==
  IF ps.kind = "sum" THEN ps.sum_free = ps.full
  ELSE \A g \in Groups(ps0) : Whole(ps, g) = Whole(ps0, g)

(* Can the entry be served in state ps (ps0 = state of the idle worker)? *)
EntryFeasible(e, ps, ps0) ==
  IF e.policy = "all" THEN EverythingFree(ps, ps0)
  ELSE /\ Feasible(ps, e.amount)
       /\ (ps.kind = "groups" /\ e.policy \in {"compact!", "tight!"}) =>
             MinGroups(ps, e.amount) = MinGroups(ps0, e.amount)

(* Is `ra` a valid grant for entry e in state ps? *)
GroupsUsed(ra) == {x.g : x \in SetOf(ra.idx)}
ValidIndices(ra, ps) ==
  LET xs == ra.idx
      wholeIdx == {k \in DOMAIN xs : xs[k].f = 0}
      fracIdx == {k \in DOMAIN xs : xs[k].f > 0}
  IN /\ \A k \in wholeIdx : xs[k].g \in Groups(ps) /\ xs[k].i \in Whole(ps, xs[k].g)
     /\ \A k1, k2 \in DOMAIN xs : k1 # k2 => xs[k1].i # xs[k2].i
     /\ Cardinality(fracIdx) <= 1
     \* a fractional remainder comes from a single index and is listed last
     /\ \A k \in fracIdx :
          /\ k = Len(xs)
          /\ xs[k].g \in Groups(ps)
          /\ \/ \E x \in Partials(ps, xs[k].g) : x.i = xs[k].i /\ x.f >= xs[k].f
             \/ xs[k].i \in Whole(ps, xs[k].g)
SumIdx(ra) == FoldSet(LAMBDA k, acc : acc + (IF ra.idx[k].f = 0 THEN U ELSE ra.idx[k].f), 0, DOMAIN ra.idx)

ExactGrant(e, ra, ps) ==
  /\ ra.amount = EntryAmount(e, ps)
  /\ ps.kind # "sum" => SumIdx(ra) = ra.amount
  /\ ps.kind = "sum" => ra.idx = <<>>
PolicyGrant(e, ra, ps, ps0) ==
  ps.kind = "groups" =>
    CASE e.policy \in {"compact", "tight"} -> Cardinality(GroupsUsed(ra)) = MinGroups(ps, e.amount)
      [] e.policy \in {"compact!", "tight!"} -> Cardinality(GroupsUsed(ra)) = MinGroups(ps0, e.amount)
      [] e.policy = "scatter" -> Cardinality(GroupsUsed(ra)) = MaxGroups(ps, e.amount)
      [] OTHER -> TRUE

(* Effect of grants on a pool: free part of every index afterwards *)
FreeOf(ps, i) ==
  IF \E g \in Groups(ps) : i \in Whole(ps, g) THEN U
  ELSE LET S == {x \in SetOf(ps.frac) : x.i = i} IN IF S = {} THEN 0 ELSE (CHOOSE x \in S : TRUE).f
AllIndices(ps0) == UNION {Whole(ps0, g) : g \in Groups(ps0)}
HeldBy(ra, i) == FoldSet(LAMBDA k, acc : acc + (IF ra.idx[k].i = i THEN (IF ra.idx[k].f = 0 THEN U ELSE ra.idx[k].f) ELSE 0), 0, DOMAIN ra.idx)
=============================================================================
