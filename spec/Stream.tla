------------------------------- MODULE Stream -------------------------------
(***************************************************************************)
(* Streamed task output (C19): what reading a stream directory has to      *)
(* return.  A behaviour is a set of task executions                        *)
(*   [task, inst, worker, file, end \in {"finished","failed","crashed"},   *)
(*    out, err : Seq(<<token, size>>)]     (chunks actually handed to the  *)
(*    stream writer, in write order)                                       *)
(* whose chunks were interleaved arbitrarily in the stream files; an       *)
(* execution that ended "finished"/"failed" closed both channels and       *)
(* flushed before it ended.  ReadBack is defined for tasks whose LAST      *)
(* execution (highest instance id) ended finished or failed.               *)
(***************************************************************************)
EXTENDS Naturals, Integers, Sequences, FiniteSets, FiniteSetsExt, TLC

SetOfSeq(s) == {s[i] : i \in DOMAIN s}
ExecsOf(execs, t) == {e \in SetOfSeq(execs) : e.task = t}
LastExec(execs, t) == CHOOSE e \in ExecsOf(execs, t) : \A o \in ExecsOf(execs, t) : o.inst <= e.inst
Decided(execs, t) == ExecsOf(execs, t) # {} /\ LastExec(execs, t).end \in {"finished", "failed"}
Expected(execs, t, chan) == IF chan = 0 THEN LastExec(execs, t).out ELSE LastExec(execs, t).err

\* the answer r of the reader for (t, chan)
ExactBytes(execs, r) == r.found /\ r.err = "" /\ r.tokens = Expected(execs, r.task, r.chan)
LastRunOnly(execs, r) == r.found /\ r.inst = LastExec(execs, r.task).inst
MarkedFinished(execs, r) == r.found /\ r.finished
SupersededOk(execs, r) ==
  /\ \A i \in SetOfSeq(r.superseded) : \E e \in ExecsOf(execs, r.task) : e.inst = i /\ i < LastExec(execs, r.task).inst
=============================================================================
