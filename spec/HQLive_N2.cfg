SPECIFICATION FairSpec
CONSTANTS
  WorkerCpus <- N2_Workers
  LateWorkers <- N2_Late
  WorkerGroup <- N2_Groups
  WorkerLife <- N2_Life
  MaxTicks = 0
  Menu <- N2_Menu
  OpenJobs <- N2_Open
  Classes <- N2_Classes
  MaxLosses = 1
  MaxCancels = 0
  MaxFails = 0
  MaxLaunchFails = 0
  PfReserve = 0
  PfMax = 1
  Eager = TRUE
  Journaling = FALSE
  SlowStop = FALSE
CHECK_DEADLOCK FALSE
PROPERTIES
  L_ComesToRest
  L_RetractResolves
  L_AssignedMoves
