----------------------------- MODULE BootTrace -----------------------------
(***************************************************************************)
(* C11 "the server keeps its unique identifier over a restart", on the     *)
(* REAL start-up path (bootstrap.rs init_hq_server / start_server run      *)
(* in-process by `hqv boot`): a journal that already carries a uid, with   *)
(* and without a (different) uid pre-set in the server configuration as    *)
(* `--access-file` does.  One line = one start: the uid the running server *)
(* announces in its access record and every ServerStart record of the      *)
(* journal after the run.                                                  *)
(***************************************************************************)
EXTENDS Naturals, Sequences, FiniteSets, TLC, Json, IOUtils

VARIABLES l, viol
Rec == ndJsonDeserialize(IOEnv.TRACE)

LineViol(e) ==
  (IF e.err = "" /\ e.stopped THEN {} ELSE {"C11_RestartSucceeds"}) \cup
  (IF e.access_uid = e.journal_uid THEN {} ELSE {"C11_UidKeptByRealStart"}) \cup
  (IF \A i \in DOMAIN e.starts : e.starts[i] = e.journal_uid THEN {} ELSE {"C11_UidKeptInJournal"}) \cup
  (IF Len(e.starts) = e.earlier_runs + 1 THEN {} ELSE {"C11_StartRecorded"})

TraceInit == l = 1 /\ viol = {}
TraceNext == l <= Len(Rec) /\ l' = l + 1 /\ viol' = viol \cup {[p |-> n, case |-> l] : n \in LineViol(Rec[l])}
TraceSpec == TraceInit /\ [][TraceNext]_<<l, viol>>
TraceAccepted ==
  LET d == TLCGet("stats").diameter IN
  /\ PrintT(<<"VERDICT", ToJson([lines |-> Len(Rec), diameter |-> d])>>)
  /\ d - 1 = Len(Rec)
AtEnd == l = Len(Rec) + 1 => PrintT(<<"VIOL", ToJson(viol)>>)
=============================================================================
