-------------------------------- MODULE Sched --------------------------------
(***************************************************************************)
(* One scheduling decision as a relation (C15, and the capacity part of    *)
(* C05).  An instance:                                                     *)
(*   W : [w -> [total : Seq(amount), free : Seq(amount)]]  (free = before  *)
(*       the decision), T : [t -> [req : Seq(amount), prio]] ready tasks,  *)
(*   m : [t -> w] for the dispatched tasks (partial function).             *)
(***************************************************************************)
EXTENDS Naturals, Integers, Sequences, FiniteSets, FiniteSetsExt, TLC

Fits(req, avail) == \A r \in DOMAIN req : req[r] = 0 \/ (r \in DOMAIN avail /\ req[r] <= avail[r])
Minus(avail, req) == [r \in DOMAIN avail |-> avail[r] - (IF r \in DOMAIN req THEN req[r] ELSE 0)]
SumReq(S, T, n) == [r \in 1..n |-> FoldSet(LAMBDA t, acc : acc + (IF r \in DOMAIN T[t].req THEN T[t].req[r] ELSE 0), 0, S)]
On(m, w) == {t \in DOMAIN m : m[t] = w}

(* C05 / sanity: what is dispatched to a worker fits into what was free there *)
WithinCapacity(W, T, m) ==
  \A w \in DOMAIN W : \A r \in DOMAIN W[w].free : SumReq(On(m, w), T, Len(W[w].free))[r] <= W[w].free[r]

(* what worker w could offer task h if the tasks of this decision with lower priority than h were left out *)
AvailFor(W, T, m, h, w) ==
  LET keep == {t \in On(m, w) : T[t].prio >= T[h].prio} IN
  [r \in DOMAIN W[w].free |-> W[w].free[r] - SumReq(keep, T, Len(W[w].free))[r]]

(* C15: no dispatched task l on w while an undispatched ready h of higher priority would fit on w without the lower ones, *)
(* unless h is kept for another worker that can run it but is too busy now                                            *)
Excused(W, T, m, h, w) ==
  \E w2 \in DOMAIN W \ {w} : Fits(T[h].req, W[w2].total) /\ ~Fits(T[h].req, AvailFor(W, T, m, h, w2))
Offending(W, T, m, skip) ==
  {<<h, l>> \in (DOMAIN T \ (DOMAIN m \cup skip)) \X DOMAIN m :
      /\ T[h].prio > T[l].prio
      /\ Fits(T[h].req, AvailFor(W, T, m, h, m[l]))
      /\ ~Excused(W, T, m, h, m[l])}
PriorityRespecting(W, T, m, skip) == Offending(W, T, m, skip) = {}
=============================================================================
