----------------------------- MODULE SchedTrace -----------------------------
(* Decisions of the REAL scheduler (`hqv sched`) judged by module Sched *)
EXTENDS Sched, Json, IOUtils

VARIABLES l, viol
Rec == ndJsonDeserialize(IOEnv.TRACE)
SSet(s) == {s[i] : i \in DOMAIN s}

WOf(e) == [w \in {e.workers[i].id : i \in DOMAIN e.workers} |->
             LET r == CHOOSE r \in SSet(e.workers) : r.id = w IN [total |-> r.total, free |-> r.free]]
TOf(e) == [t \in {e.tasks[i].t : i \in DOMAIN e.tasks} |->
             LET r == CHOOSE r \in SSet(e.tasks) : r.t = t IN [req |-> <<r.cpus, r.gpus>>, prio |-> r.prio]]
MOf(e) == [t \in {e.assigned[i].t : i \in DOMAIN e.assigned} |-> (CHOOSE r \in SSet(e.assigned) : r.t = t).w]

LineViol(e) ==
  IF e.pan = 1 THEN {"C15_SchedulerPanics"}
  ELSE IF e.result # "done" THEN {}
  ELSE LET W == WOf(e)  T == TOf(e)  m == MOf(e) IN
       (IF DOMAIN m \subseteq DOMAIN T /\ WithinCapacity(W, T, m) THEN {} ELSE {"C05_DecisionWithinCapacity"}) \cup
       (IF DOMAIN m \subseteq DOMAIN T /\ PriorityRespecting(W, T, m, SSet(e.prefilled)) THEN {} ELSE {"C15_PriorityRespected"})

TraceInit == l = 1 /\ viol = {}
TraceNext ==
  /\ l <= Len(Rec)
  /\ l' = l + 1
  /\ viol' = viol \cup {[p |-> n, line |-> l, id |-> Rec[l].id] : n \in LineViol(Rec[l])}
TraceSpec == TraceInit /\ [][TraceNext]_<<l, viol>>
TraceAccepted ==
  LET d == TLCGet("stats").diameter IN
  /\ PrintT(<<"VERDICT", ToJson([lines |-> Len(Rec), diameter |-> d])>>)
  /\ d - 1 = Len(Rec)
AtEnd == l = Len(Rec) + 1 => PrintT(<<"VIOL", ToJson(viol)>>)
=============================================================================
