------------------------------ MODULE HQModel ------------------------------
(***************************************************************************)
(* The HyperQueue cluster as a state machine: tako server reactor          *)
(* (reactor.rs), task queues with proactive filling / retraction /         *)
(* redirects (taskqueue.rs, mapping.rs), the scheduler boundary (the MILP  *)
(* is abstracted to "any placement that fits the free resources of         *)
(* unblocked workers", the mapping rules are the real ones), the worker    *)
(* state machine (worker/reactor.rs), FIFO connections, the job layer      *)
(* (server/state.rs, job.rs), client requests and faults.                  *)
(*                                                                         *)
(* Implementation-shaped: one action per reactor entry point / environment *)
(* step of the harness (`hqv cluster`), the same variables as the          *)
(* projection of the real state (module HQ), and every assertion /         *)
(* unreachable!() of the code whose truth depends on message order is a    *)
(* guarded branch that sets `panic` (C09 = NoPanic).                       *)
(*                                                                         *)
(* Core and job layer are pure functions over records                      *)
(*   C = [task, queue, redirect, srv, ns, out, ...]   out[w] = messages    *)
(*       appended to the connection of w by this reactor call              *)
(*   J = [job, ev, pn]                               ev = events emitted   *)
(* so that re-entrant paths (task failure -> max-fails -> cancel) compose  *)
(* as they do in the code.                                                 *)
(***************************************************************************)
EXTENDS HQ

CONSTANTS
  WorkerCpus,      \* [w -> cpus]  (1/10000 units) every worker of the instance
  LateWorkers,     \* the workers (a set of the highest ids) that are NOT connected at the start; they arrive one by one, lowest id first
  WorkerGroup,     \* [w -> group name]
  WorkerLife,      \* [w -> life time in hours, -1 = unlimited]
  MaxTicks,        \* number of hours that may pass
  Menu,            \* Seq of submits: [job, tasks : Seq([id, deps, rq, prio]), climit, maxFails]
  OpenJobs,        \* [j -> job failure limit] : jobs created by `job open`; a menu entry naming such a job is attached to it
  Classes,         \* the `classes` value (Seq of Seq of variants)
  MaxLosses, MaxCancels, MaxFails, MaxLaunchFails,
  PfReserve, PfMax, \* proactive filling configuration (SchedulerConfig)
  SlowStop,        \* TRUE: an execution told to stop by a cancel does not end at once - the worker keeps it (and its resources) until
                   \*       a later step TaskDie; FALSE: it ends in the step that delivers the cancel
  Journaling,      \* TRUE: the model keeps the journal (history variable; small instances only) and the restore invariants apply
  Eager            \* TRUE: the scheduler leaves no task behind that still fits somewhere (assumption used for C02)

VARIABLES panic, wkq, submitted, budget, armedFail, drift, journal, late
\* wkq[w][rq] : Seq([t, inst]) worker backlog of pre-sent tasks in arrival order (popped from the end)
\* submitted  : menu indices already used;  budget : remaining faults / client requests
\* armedFail  : tasks whose next launch fails
\* journal    : what the event sink wrote, in order (Submit, TaskStarted, ..., WorkerLost, JobCompleted); <<>> unless Journaling
\* late       : tasks submitted when a (transitive) dependency had already ended failed / canceled / aborted (monitor for C03)
\* drift      : workers on which a promoted pre-sent task found less free resources booked than it needs (monitor for C05)

mvars == <<vars, panic, wkq, submitted, budget, armedFail, drift, journal, late>>

NoPanic == panic = ""

-----------------------------------------------------------------------------
(* helpers *)
FoldSeqLeft(op(_, _), base, seq) == FoldLeft(op, base, seq)
RqOf(t) == tinfo[t].rq
PrioOf(t) == tinfo[t].prio
SortedIds(S) == SetToSortSeq(S, LAMBDA a, b : a < b)
Send(out, w, m) == IF w \in DOMAIN out THEN [out EXCEPT ![w] = Append(@, m)] ELSE out
Without(f, t) == [x \in DOMAIN f \ {t} |-> f[x]]
ComputeOf(C, t, v) == [t |-> t, inst |-> C.task[t].inst, v |-> v, rq |-> C.task[t].rq, nodes |-> <<>>]

Sub1(free, rq, v, w) == [r \in DOMAIN free |-> LET a == ReqAmount(rq, v, r, w) IN IF free[r] >= a THEN free[r] - a ELSE 0]
Add1(free, rq, v, w) == [r \in DOMAIN free |-> free[r] + ReqAmount(rq, v, r, w)]

Pn(C, site) == IF C.pn = "" THEN [C EXCEPT !.pn = site] ELSE C

\* ---- server side worker bookkeeping (server/worker.rs)
InsertSn(C, w, t, rq, v) ==
  IF C.pn # "" THEN C
  ELSE IF w \notin DOMAIN C.srv THEN Pn(C, "get_worker_mut")
  ELSE IF C.srv[w].kind # "sn" \/ t \in C.srv[w].assigned THEN Pn(C, "insert_sn_task")
  ELSE [C EXCEPT !.srv[w].assigned = @ \cup {t}, !.srv[w].free = Sub1(@, rq, v, w)]
RemoveSn(C, w, t, rq, v) ==
  IF C.pn # "" THEN C
  ELSE IF w \notin DOMAIN C.srv THEN Pn(C, "get_worker_mut")
  ELSE IF C.srv[w].kind # "sn" \/ t \notin C.srv[w].assigned THEN Pn(C, "remove_sn_task")
  ELSE [C EXCEPT !.srv[w].assigned = @ \ {t}, !.srv[w].free = Add1(@, rq, v, w)]
RemovePrefill(C, w, t) ==
  IF C.pn # "" THEN C
  ELSE IF w \notin DOMAIN C.srv THEN Pn(C, "get_worker_mut")
  ELSE IF C.srv[w].kind # "sn" \/ t \notin C.srv[w].prefilled THEN Pn(C, "remove_prefill_task")
  ELSE [C EXCEPT !.srv[w].prefilled = @ \ {t}]
TryRemoveRedirection(C, t) ==
  IF C.pn = "" /\ t \in DOMAIN C.redirect
  THEN LET r == C.redirect[t] IN RemoveSn([C EXCEPT !.redirect = Without(@, t)], r.w, t, C.task[t].rq, r.v)
  ELSE C

\* ---- multi-node bookkeeping (Worker::set_mn_task / reset_mn_task, reset_mn_task_workers)
IsFreeW(sw) == sw.kind = "sn" /\ sw.assigned = {} /\ sw.prefilled = {} /\ ~sw.stopping
SetMn(C, w, t, root) ==
  IF C.pn # "" THEN C
  ELSE IF w \notin DOMAIN C.srv THEN Pn(C, "get_worker_mut")
  ELSE IF ~IsFreeW(C.srv[w]) THEN Pn(C, "set_mn_task")
  ELSE [C EXCEPT !.srv[w] = [@ EXCEPT !.kind = "mn", !.free = <<>>, !.mn = t, !.root = root]]
ResetMn(C, w) ==
  IF C.pn # "" THEN C
  ELSE IF w \notin DOMAIN C.srv THEN Pn(C, "get_worker_mut")
  ELSE [C EXCEPT !.srv[w] = [@ EXCEPT !.kind = "sn", !.assigned = {}, !.prefilled = {}, !.free = C.srv[w].total, !.mn = 0, !.root = FALSE]]
ResetMnWorkers(C, ws, t) ==
  FoldSeqLeft(LAMBDA CC, w : IF CC.pn # "" THEN CC
                             ELSE IF w \notin DOMAIN CC.srv THEN Pn(CC, "get_worker_mut")
                             ELSE IF CC.srv[w].kind # "mn" \/ CC.srv[w].mn # t THEN Pn(CC, "reset_mn_task_workers")
                             ELSE ResetMn(CC, w), C, ws)

\* ---- queues (scheduler/taskqueue.rs)
NoPrefill(q) == [q EXCEPT !.hasPrefill = FALSE, !.pprio = -1, !.pset = {}]
\* TaskQueue::remove : the prefill set of the same priority first (it is NOT dropped when it becomes empty), then the entry
QRemove(q, t, p) ==
  IF q.hasPrefill /\ q.pprio = p /\ t \in q.pset THEN [q EXCEPT !.pset = @ \ {t}]
  ELSE [q EXCEPT !.ready = @ \ {t}]
\* TaskQueue::remove_prefilled
QRemovePrefilled(C, rq, t) ==
  IF C.pn # "" THEN C
  ELSE IF ~C.queue[rq].hasPrefill \/ t \notin C.queue[rq].pset THEN Pn(C, "remove_prefilled")
  ELSE LET ps == C.queue[rq].pset \ {t} IN
       [C EXCEPT !.queue[rq] = IF ps = {} THEN NoPrefill(@) ELSE [@ EXCEPT !.pset = ps]]
\* TaskQueue::move_prefilled_task_to_ready
QMovePrefilledToReady(C, rq, t) ==
  IF C.pn # "" THEN C
  ELSE IF ~C.queue[rq].hasPrefill \/ t \notin C.queue[rq].pset THEN Pn(C, "move_prefilled_task_to_ready")
  ELSE LET ps == C.queue[rq].pset \ {t}
           q1 == IF ps = {} THEN NoPrefill(C.queue[rq]) ELSE [C.queue[rq] EXCEPT !.pset = ps]
       IN [C EXCEPT !.queue[rq] = [q1 EXCEPT !.ready = @ \cup {t}]]

\* process_retracted: every retracted task must be Prefilled on a connected worker; one RetractTasks per worker
ProcessRetracted(C) ==
  LET retracted == C.retr IN
  IF C.pn # "" \/ retracted = {} THEN C
  ELSE IF \E t \in retracted : t \notin DOMAIN C.task THEN Pn(C, "process_retracted_get_task")
  ELSE IF \E t \in retracted : C.task[t].st # "P" THEN Pn(C, "process_retracted_state")
  ELSE IF \E t \in retracted : C.task[t].w \notin DOMAIN C.srv THEN Pn(C, "get_worker_mut")
  ELSE IF \E t \in retracted : t \notin C.srv[C.task[t].w].prefilled THEN Pn(C, "remove_prefill_task")
  ELSE LET ws == {C.task[t].w : t \in retracted}
       IN [C EXCEPT !.task = [t \in DOMAIN C.task |-> IF t \in retracted THEN [C.task[t] EXCEPT !.st = "R"] ELSE C.task[t]],
                    !.srv = [w \in DOMAIN C.srv |-> IF w \in ws THEN [C.srv[w] EXCEPT !.prefilled = @ \ retracted] ELSE C.srv[w]],
                    !.out = [w \in DOMAIN C.out |->
                               IF w \in ws THEN Append(C.out[w], [k |-> "Retract", ids |-> SortedIds({t \in retracted : C.task[t].w = w})])
                               ELSE C.out[w]],
                    !.retr = {}]

\* add_ready_task of a task with class rq and priority p: every prefill of lower priority is disposed first
AddReadyP(C, t, rq, p) ==
  LET disposed == {x \in DOMAIN C.queue : C.queue[x].hasPrefill /\ C.queue[x].pprio < p}
      retr == UNION {C.queue[x].pset : x \in disposed}
      q1 == [x \in DOMAIN C.queue |-> IF x \in disposed THEN [NoPrefill(C.queue[x]) EXCEPT !.ready = C.queue[x].ready \cup C.queue[x].pset] ELSE C.queue[x]]
  IN [C EXCEPT !.queue = [q1 EXCEPT ![rq].ready = @ \cup {t}], !.retr = @ \cup retr]
AddReady(C, t) == AddReadyP(C, t, C.task[t].rq, C.task[t].prio)

\* Core::remove_task
RemoveTask(C, t) ==
  IF C.pn # "" THEN C
  ELSE IF t \notin DOMAIN C.task THEN Pn(C, "remove_task")
  ELSE LET x == C.task[t] IN
       [C EXCEPT !.queue = IF x.st \in {"W", "R"} THEN [@ EXCEPT ![x.rq] = QRemove(@, t, x.prio)] ELSE @,
                 !.task = Without(@, t)]
RemoveTasks(C, S) == FoldSeqLeft(RemoveTask, C, SortedIds(S))

\* consumers known to the core
ConsumersIn(C, t) == {c \in DOMAIN C.task : t \in tinfo[c].deps}
RECURSIVE TransConsIn(_, _, _)
TransConsIn(C, S, acc) ==
  LET nxt == UNION {ConsumersIn(C, t) : t \in S} \ acc IN IF nxt = {} THEN acc ELSE TransConsIn(C, nxt, acc \cup nxt)

-----------------------------------------------------------------------------
(* job layer (server/state.rs, job.rs) *)
JPn(J, site) == IF J.pn = "" THEN [J EXCEPT !.pn = site] ELSE J
JEv(J, e) == [J EXCEPT !.ev = Append(@, e)]
NonTerminal(jb) == {t \in DOMAIN jb.tasks : jb.tasks[t] \in {"Waiting", "Running"}}
SetState(jb, t, s) ==
  LET old == jb.tasks[t]
      c1 == IF old = "Running" THEN [jb.cnt EXCEPT !.running = @ - 1] ELSE jb.cnt
      c2 == CASE s = "Running" -> [c1 EXCEPT !.running = @ + 1]
              [] s = "Finished" -> [c1 EXCEPT !.finished = @ + 1]
              [] s = "Failed" -> [c1 EXCEPT !.failed = @ + 1]
              [] s = "Canceled" -> [c1 EXCEPT !.canceled = @ + 1]
              [] s = "Aborted" -> [c1 EXCEPT !.aborted = @ + 1]
              [] OTHER -> c1
  IN [jb EXCEPT !.tasks[t] = s, !.cnt = c2]
SetStates(jb, S, s) == FoldSeqLeft(LAMBDA b, t : SetState(b, t, s), jb, SortedIds(S))
CheckTermination(J, j) ==
  IF NonTerminal(J.job[j]) = {} /\ ~J.job[j].open
  THEN JEv([J EXCEPT !.job[j].completed = TRUE], [k |-> "JobCompleted", j |-> j])
  ELSE J
JAbort(J, j, S) ==
  IF J.pn # "" \/ S = {} THEN J
  ELSE IF \E t \in S : J.job[j].tasks[t] \notin {"Waiting", "Running"} THEN JPn(J, "abort_tasks")
  ELSE CheckTermination(JEv([J EXCEPT !.job[j] = SetStates(@, S, "Aborted")], [k |-> "TasksAborted", ts |-> SortedIds(S)]), j)
\* State::process_task_failed : <<J', tasks to cancel in the core>>
JTaskFailed(J, t, consumers, cls) ==
  LET j == JobOf(t)
      J1 == JAbort(J, j, consumers)
  IN IF J1.pn # "" THEN <<J1, {}>>
     ELSE IF J1.job[j].tasks[t] \notin {"Waiting", "Running"} THEN <<JPn(J1, "set_failed_state"), {}>>
     ELSE LET J2 == CheckTermination(JEv([J1 EXCEPT !.job[j] = SetState(@, t, "Failed")], [k |-> "TaskFailed", t |-> t, cls |-> cls]), j)
              mf == J2.job[j].maxFails
          IN IF mf >= 0 /\ J2.job[j].cnt.failed > mf
             THEN LET rest == NonTerminal(J2.job[j]) IN <<JAbort(J2, j, rest), rest>>
             ELSE <<J2, {}>>
JTaskStarted(J, t, inst, ws, v) ==
  LET j == JobOf(t)
      J1 == IF J.job[j].tasks[t] = "Waiting" THEN [J EXCEPT !.job[j] = SetState(@, t, "Running")] ELSE J
  IN JEv(J1, [k |-> "TaskStarted", t |-> t, inst |-> inst, ws |-> ws, v |-> v])
JTaskFinished(J, t) ==
  LET j == JobOf(t) IN
  IF J.job[j].tasks[t] # "Running" THEN JPn(J, "set_finished_state")
  ELSE CheckTermination(JEv([J EXCEPT !.job[j] = SetState(@, t, "Finished")], [k |-> "TaskFinished", t |-> t]), j)
JWorkerLost(J, w, running, fail) ==
  JEv([J EXCEPT !.job = [j \in DOMAIN J.job |->
          SetStates(J.job[j], {t \in running : JobOf(t) = j /\ J.job[j].tasks[t] = "Running"}, "Waiting")]],
      [k |-> "WorkerLost", w |-> w, fail |-> fail])

-----------------------------------------------------------------------------
(* reactor (server/reactor.rs): pure functions on C or <<C, J>> *)

\* on_cancel_tasks
OnCancel(C, ids) ==
  LET present == ids \cap DOMAIN C.task
      unreg == present \cup TransConsIn(C, present, {})
      Step(CC, t) ==
        LET x == C.task[t] IN
        CASE x.st = "W" -> [CC EXCEPT !.ns = TRUE]
          [] x.st \in {"A", "X"} -> [RemoveSn(CC, x.w, t, x.rq, x.v) EXCEPT !.ns = TRUE, !.cancel = @ \cup {<<x.w, t>>}]
          [] x.st = "R" -> [TryRemoveRedirection(CC, t) EXCEPT !.ns = TRUE, !.cancel = @ \cup {<<x.w, t>>}]
          [] x.st = "P" -> [RemovePrefill(QRemovePrefilled(CC, x.rq, t), x.w, t) EXCEPT !.cancel = @ \cup {<<x.w, t>>}]
          [] x.st = "M" -> [FoldSeqLeft(ResetMn, CC, x.ws) EXCEPT !.ns = TRUE, !.cancel = @ \cup {<<x.ws[1], t>>}]
          [] OTHER -> Pn(CC, "on_cancel_tasks_state")
      C1 == FoldSeqLeft(Step, [C EXCEPT !.cancel = {}], SortedIds(present))
      C2 == RemoveTasks(C1, unreg)
      ws == {p[1] : p \in C1.cancel}
  IN [C2 EXCEPT !.out = [w \in DOMAIN C2.out |->
                           IF w \in ws THEN Append(C2.out[w], [k |-> "Cancel", ids |-> SortedIds({p[2] : p \in {q \in C1.cancel : q[1] = w}})])
                           ELSE C2.out[w]],
                !.cancel = {}]

\* task_failed (w = 0 : failed by the server itself after a worker loss)
TaskFailed(CJ, w, t, cls) ==
  LET C == CJ[1]  J == CJ[2] IN
  IF C.pn # "" \/ J.pn # "" \/ t \notin DOMAIN C.task THEN CJ
  ELSE LET x == C.task[t]
           C1 == IF w = 0 THEN (IF x.st = "W" THEN C ELSE Pn(C, "task_failed_not_waiting"))
                 ELSE IF IsMn(x.rq) THEN
                        (IF x.st # "M" THEN Pn(C, "mn_placement_unwrap")
                         ELSE IF x.ws[1] # w THEN Pn(C, "task_failed_worker") ELSE ResetMnWorkers(C, x.ws, t))
                 ELSE CASE x.st \in {"A", "X"} -> IF x.w # w THEN Pn(C, "task_failed_worker") ELSE RemoveSn(C, w, t, x.rq, x.v)
                        [] x.st = "P" -> IF x.w # w THEN Pn(C, "task_failed_worker") ELSE RemovePrefill(QRemovePrefilled(C, x.rq, t), w, t)
                        [] x.st = "R" -> IF x.w # w THEN Pn(C, "task_failed_worker") ELSE TryRemoveRedirection(C, t)
                        [] OTHER -> C
           cons == TransConsIn(C1, {t}, {})
       IN IF C1.pn # "" THEN <<C1, J>>
          ELSE IF \E c \in cons : C1.task[c].st # "W" THEN <<Pn(C1, "task_failed_consumer"), J>>
          ELSE IF w # 0 /\ x.st = "W" THEN <<Pn(C1, "task_failed_state"), J>>
          ELSE LET C2 == RemoveTask(RemoveTasks(C1, cons), t)
                   jr == JTaskFailed(J, t, cons, cls)
                   C3 == IF jr[2] # {} THEN OnCancel(C2, jr[2]) ELSE C2
               IN <<C3, jr[1]>>

\* task_finished
TaskFinished(CJ, w, t) ==
  LET C == CJ[1]  J == CJ[2] IN
  IF t \notin DOMAIN C.task THEN CJ
  ELSE LET x == C.task[t]
           C1 == CASE x.st \in {"A", "X"} -> IF x.w # w THEN Pn(C, "task_finished_worker") ELSE RemoveSn(C, w, t, x.rq, x.v)
                   [] x.st = "R" -> IF x.w # w THEN Pn(C, "task_finished_worker")
                                    ELSE LET Cr == TryRemoveRedirection(C, t) IN [Cr EXCEPT !.queue[x.rq] = QRemove(@, t, x.prio)]
                   [] x.st = "M" -> IF x.ws[1] # w THEN Pn(C, "task_finished_worker") ELSE ResetMnWorkers(C, x.ws, t)
                   [] OTHER -> Pn(C, "task_finished_state")
           J1 == IF C1.pn = "" THEN JTaskFinished(J, t) ELSE J
           cons == ConsumersIn(C1, t)
           bad == \E c \in cons : C1.task[c].st # "W" \/ C1.task[c].nd = 0
           C2 == [C1 EXCEPT !.task = [y \in DOMAIN C1.task |-> IF y \in cons THEN [C1.task[y] EXCEPT !.nd = @ - 1] ELSE C1.task[y]]]
           newly == {c \in cons : C2.task[c].nd = 0}
           C3 == ProcessRetracted(FoldSeqLeft(AddReady, [C2 EXCEPT !.retr = {}], SortedIds(newly)))
           C4 == [RemoveTask([C3 EXCEPT !.task[t].st = "F"], t) EXCEPT !.need = TRUE]
       IN IF C1.pn # "" \/ J1.pn # "" THEN <<C1, J1>>
          ELSE IF bad THEN <<Pn(C1, "decrease_unfinished_deps"), J1>>
          ELSE <<C4, J1>>

\* task_running
TaskRunning(CJ, w, t, v) ==
  LET C == CJ[1]  J == CJ[2] IN
  IF t \notin DOMAIN C.task THEN CJ
  ELSE LET x == C.task[t] IN
       CASE x.st = "A" ->
              IF x.w # w \/ x.v # v THEN <<Pn(C, "task_running_assigned"), J>>
              ELSE <<[C EXCEPT !.task[t].st = "X"], JTaskStarted(J, t, x.inst, <<w>>, v)>>
         [] x.st = "P" ->
              IF x.w # w THEN <<Pn(C, "task_running_prefilled"), J>>
              ELSE IF w \notin DOMAIN C.srv THEN <<Pn(C, "get_worker_mut"), J>>
              ELSE IF C.srv[w].kind # "sn" \/ t \notin C.srv[w].prefilled \/ t \in C.srv[w].assigned THEN <<Pn(C, "task_from_prefilled_to_started"), J>>
              ELSE <<[C EXCEPT !.task[t] = [@ EXCEPT !.st = "X", !.v = v],
                               !.srv[w] = [@ EXCEPT !.prefilled = @ \ {t}, !.assigned = @ \cup {t}, !.free = Sub1(@, x.rq, v, w)],
                               !.drift = IF \E r \in 1..NRes(w) : C.srv[w].free[r] < ReqAmount(x.rq, v, r, w) THEN @ \cup {w} ELSE @,
                               !.queue[x.rq] = QRemove(@, t, x.prio)],
                      JTaskStarted(J, t, x.inst, <<w>>, v)>>
         [] x.st = "R" ->
              IF x.w # w THEN <<Pn(C, "task_running_retracting"), J>>
              ELSE LET C1 == TryRemoveRedirection([C EXCEPT !.ns = TRUE, !.queue[x.rq] = QRemove(@, t, x.prio)], t)
                       C2 == InsertSn(C1, w, t, x.rq, v)
                       short == w \in DOMAIN C1.srv /\ \E r \in 1..NRes(w) : C1.srv[w].free[r] < ReqAmount(x.rq, v, r, w)
                   IN <<[C2 EXCEPT !.task[t] = [@ EXCEPT !.st = "X", !.v = v], !.drift = IF short THEN @ \cup {w} ELSE @],
                        JTaskStarted(J, t, x.inst, <<w>>, v)>>
         [] x.st = "M" ->
              \* assigned and running are not distinguished for multi-node tasks: only the start is announced
              IF x.ws[1] # w THEN <<Pn(C, "task_running_mn_root"), J>> ELSE <<C, JTaskStarted(J, t, x.inst, x.ws, v)>>
         [] OTHER -> <<Pn(C, "task_running_state"), J>>

\* task_reject
TaskReject(CJ, w, t, v) ==
  LET C == CJ[1]  J == CJ[2] IN
  IF t \notin DOMAIN C.task THEN CJ
  ELSE IF w \notin DOMAIN C.srv THEN <<Pn(C, "get_worker_mut"), J>>
  ELSE LET x == C.task[t]
           C0 == IF v >= 0 THEN [C EXCEPT !.srv[w].blocked = @ \cup {<<x.rq, v>>}] ELSE C
           Requeue(CC) == [ProcessRetracted(AddReady([CC EXCEPT !.task[t] = [@ EXCEPT !.st = "W", !.nd = 0, !.w = 0, !.v = -1], !.retr = {}], t))
                             EXCEPT !.need = TRUE]
       IN CASE x.st = "A" ->
                 IF x.w # w \/ v # x.v THEN <<Requeue(C0), J>>
                 ELSE <<Requeue(RemoveSn(C0, w, t, x.rq, x.v)), J>>
            [] x.st = "P" -> <<Requeue(QRemovePrefilled(RemovePrefill(C0, w, t), x.rq, t)), J>>
            [] x.st = "R" ->
                 IF x.w # w THEN <<C0, J>>
                 ELSE IF t \in DOMAIN C0.redirect THEN
                    LET r == C0.redirect[t]
                        C1 == [C0 EXCEPT !.redirect = Without(@, t), !.task[t] = [@ EXCEPT !.st = "A", !.w = r.w, !.v = r.v]]
                    IN <<[C1 EXCEPT !.out = Send(@, r.w, [k |-> "Compute", tasks |-> <<ComputeOf(C1, t, r.v)>>])], J>>
                 ELSE <<Requeue(C0), J>>
            [] OTHER -> <<Pn(C0, "task_reject_state"), J>>

ApplyUpdate(CJ, w, u) ==
  IF CJ[1].pn # "" \/ CJ[2].pn # "" THEN CJ
  ELSE CASE u.k \in {"Running", "RunningPrefilled"} -> TaskRunning(CJ, w, u.t, u.v)
         [] u.k = "Finished" -> TaskFinished(CJ, w, u.t)
         [] u.k = "Failed" -> LET r == TaskFailed(CJ, w, u.t, u.cls) IN <<[r[1] EXCEPT !.need = TRUE], r[2]>>
         [] u.k = "Reject" -> TaskReject(CJ, w, u.t, u.v)
         [] u.k = "Enable" ->
              IF w \notin DOMAIN CJ[1].srv THEN <<Pn(CJ[1], "get_worker_mut"), CJ[2]>>
              ELSE <<[CJ[1] EXCEPT !.srv[w].blocked = @ \ {<<u.rq, u.v>>}, !.need = TRUE], CJ[2]>>
         [] OTHER -> CJ

\* on_task_update
OnTaskUpdate(C, J, w, ups) ==
  LET pre == Len(ups) = 2 /\ ups[1].k = "Finished" /\ ups[2].k = "RunningPrefilled" /\ ups[2].t \in DOMAIN C.task
      r == FoldSeqLeft(LAMBDA cj, u : ApplyUpdate(cj, w, u), <<[C EXCEPT !.need = FALSE], J>>, ups)
  IN <<[r[1] EXCEPT !.ns = @ \/ (r[1].need /\ ~pre)], r[2]>>

\* on_retract_response
OnRetractResponse(C, w, ids) ==
  LET Step(CC, t) ==
        IF t \notin DOMAIN CC.task THEN CC
        ELSE LET x == CC.task[t] IN
             IF x.st # "R" \/ x.w # w THEN CC
             ELSE IF t \in DOMAIN CC.redirect THEN
                LET r == CC.redirect[t] IN
                [CC EXCEPT !.redirect = Without(@, t), !.task[t] = [@ EXCEPT !.st = "A", !.w = r.w, !.v = r.v],
                           !.moved = Append(@, [t |-> t, w |-> r.w, v |-> r.v])]
             ELSE [CC EXCEPT !.task[t] = [@ EXCEPT !.st = "W", !.nd = 0, !.w = 0, !.v = -1]]
      C1 == FoldSeqLeft(Step, [C EXCEPT !.moved = <<>>], ids)
      targets == {C1.moved[i].w : i \in DOMAIN C1.moved}
  IN [C1 EXCEPT !.out = [ww \in DOMAIN C1.out |->
                           IF ww \in targets THEN
                              Append(C1.out[ww], [k |-> "Compute",
                                 tasks |-> LET ms == SelectSeq(C1.moved, LAMBDA m : m.w = ww) IN [i \in DOMAIN ms |-> ComputeOf(C1, ms[i].t, ms[i].v)]])
                           ELSE C1.out[ww]],
                !.moved = <<>>]

\* on_new_tasks (ts in list order); info = static description of the new tasks
OnNewTasks(C, ts, info) ==
  LET Step(CC, t) ==
        LET nd == Cardinality(info[t].deps \cap DOMAIN CC.task)
            x == [st |-> "W", w |-> 0, v |-> -1, nd |-> nd, inst |-> 0, crash |-> 0, ws |-> <<>>, rq |-> info[t].rq, prio |-> info[t].prio]
            C1 == IF nd = 0 THEN AddReadyP(CC, t, x.rq, x.prio) ELSE CC
        IN [C1 EXCEPT !.task = (t :> x) @@ @]
      C2 == FoldSeqLeft(Step, [C EXCEPT !.retr = {}], ts)
  IN [ProcessRetracted(C2) EXCEPT !.ns = TRUE]

\* on_remove_worker (single-node workers); ord = the order in which the tasks that ran on w are visited by the crash
\* accounting (the code iterates a hash set: when a failure limit aborts the rest of the job, the order decides which
\* task ends failed and which aborted)
RunningOn(C, w) ==
  IF C.srv[w].kind = "sn" THEN {t \in C.srv[w].assigned : t \in DOMAIN C.task /\ C.task[t].st = "X"}
  ELSE {t \in {C.srv[w].mn} : t \in DOMAIN C.task /\ C.task[t].st = "M" /\ C.task[t].ws[1] = w}
OnRemoveWorker(C, J, w, fail, ord) ==
  LET sw == C.srv[w]
      C0 == [C EXCEPT !.srv = Without(@, w), !.out = Without(@, w), !.retr = {}]
      \* prefilled tasks of the lost worker go back first
      StepP(CC, t) ==
        [QMovePrefilledToReady(CC, CC.task[t].rq, t) EXCEPT !.task[t] = [@ EXCEPT !.st = "W", !.nd = 0, !.w = 0, !.v = -1, !.inst = @ + 1]]
      StepA(CC, t) ==
        IF t \notin DOMAIN CC.task THEN Pn(CC, "get_task_mut")
        ELSE IF CC.task[t].st = "R" THEN
           (IF t \notin DOMAIN CC.redirect THEN Pn(CC, "remove_worker_redirect")
            ELSE AddReady([CC EXCEPT !.redirect = Without(@, t), !.task[t].inst = @ + 1], t))
        ELSE AddReady([CC EXCEPT !.task[t] = [@ EXCEPT !.st = "W", !.nd = 0, !.w = 0, !.v = -1, !.inst = @ + 1]], t)
      \* single-node worker: its prefilled, then its assigned tasks; multi-node worker: its task (root) or just its seat (non-root)
      C2 == IF sw.kind = "sn" THEN FoldSeqLeft(StepA, FoldSeqLeft(StepP, C0, SortedIds(sw.prefilled)), SortedIds(sw.assigned))
            ELSE IF sw.mn \notin DOMAIN C0.task THEN Pn(C0, "get_task_mut")
            ELSE LET x == C0.task[sw.mn] IN
                 IF x.st # "M" THEN Pn(C0, "remove_worker_mn_state")
                 ELSE IF x.ws[1] = w THEN
                    LET C5 == FoldSeqLeft(ResetMn, C0, Tail(x.ws))
                    IN AddReady([C5 EXCEPT !.task[sw.mn] = [@ EXCEPT !.st = "W", !.nd = 0, !.w = 0, !.v = -1, !.ws = <<>>, !.inst = @ + 1]], sw.mn)
                 ELSE [C0 EXCEPT !.task[sw.mn].ws = SelectSeq(@, LAMBDA y : y # w)]
      running == RunningOn(C, w)
      \* tasks retracting FROM the lost worker
      StepR(CC, t) ==
        LET x == CC.task[t] IN
        IF x.st = "R" /\ x.w = w THEN
           (IF t \in DOMAIN CC.redirect THEN
              LET r == CC.redirect[t]
                  C5 == [CC EXCEPT !.redirect = Without(@, t), !.task[t] = [@ EXCEPT !.st = "A", !.w = r.w, !.v = r.v, !.inst = @ + 1]]
              IN [C5 EXCEPT !.out = Send(@, r.w, [k |-> "Compute", tasks |-> <<ComputeOf(C5, t, r.v)>>])]
            ELSE [CC EXCEPT !.task[t] = [@ EXCEPT !.st = "W", !.nd = 0, !.w = 0, !.v = -1, !.inst = @ + 1]])
        ELSE CC
      C3 == IF C2.pn # "" THEN C2 ELSE FoldSeqLeft(StepR, C2, SortedIds(DOMAIN C2.task))
      C4 == ProcessRetracted(C3)
      J1 == JWorkerLost(J, w, running, fail)
      StepF(cj, t) ==
        IF cj[1].pn # "" \/ cj[2].pn # "" \/ t \notin DOMAIN cj[1].task THEN cj
        ELSE IF tinfo[t].climit = -1 THEN TaskFailed(cj, 0, t, "never_restart")
        ELSE IF fail THEN
           LET c2 == cj[1].task[t].crash + 1
               cj2 == <<[cj[1] EXCEPT !.task[t].crash = c2], cj[2]>>
           IN IF tinfo[t].climit > 0 /\ c2 >= tinfo[t].climit THEN TaskFailed(cj2, 0, t, "crash_limit") ELSE cj2
        ELSE cj
      r == FoldSeqLeft(StepF, <<C4, J1>>, ord)
  IN <<[r[1] EXCEPT !.ns = TRUE], r[2]>>

-----------------------------------------------------------------------------
(* the state as records, and writing a result back *)
CoreRec == [task |-> task, queue |-> queue, redirect |-> redirect, srv |-> srv, ns |-> needSched, need |-> FALSE,
            out |-> [w \in DOMAIN srv |-> <<>>], pn |-> "", retr |-> {}, cancel |-> {}, moved |-> <<>>,
            asg |-> <<>>, rets |-> <<>>, pfs |-> <<>>, mnsent |-> <<>>, drift |-> drift]
JobRec == [job |-> job, ev |-> <<>>, pn |-> ""]

ApplyJobEvent(h, ev) ==
  CASE ev.k = "TaskStarted" /\ ev.t \in DOMAIN h -> [h EXCEPT ![ev.t] = Append(@, [k |-> "Started", inst |-> ev.inst, ws |-> ev.ws, cls |-> ""])]
    [] ev.k = "TaskFinished" /\ ev.t \in DOMAIN h -> [h EXCEPT ![ev.t] = Append(@, [k |-> "Finished", inst |-> -1, ws |-> <<>>, cls |-> ""])]
    [] ev.k = "TaskFailed" /\ ev.t \in DOMAIN h -> [h EXCEPT ![ev.t] = Append(@, [k |-> "Failed", inst |-> -1, ws |-> <<>>, cls |-> ev.cls])]
    [] ev.k = "TasksCanceled" -> [t \in DOMAIN h |-> IF t \in SeqSet(ev.ts) THEN Append(h[t], [k |-> "Canceled", inst |-> -1, ws |-> <<>>, cls |-> ""]) ELSE h[t]]
    [] ev.k = "TasksAborted" -> [t \in DOMAIN h |-> IF t \in SeqSet(ev.ts) THEN Append(h[t], [k |-> "Aborted", inst |-> -1, ws |-> <<>>, cls |-> ""]) ELSE h[t]]
    [] OTHER -> h
HistAfter(h, evs) == FoldSeqLeft(ApplyJobEvent, h, evs)
CompletedAfter(nc, evs) ==
  [j \in DOMAIN nc |-> nc[j] + Cardinality({i \in DOMAIN evs : evs[i].k = "JobCompleted" /\ evs[i].j = j})]
ExceededAfter(h2) ==
  exceeded \cup {j \in {tinfo[t].job : t \in DOMAIN tinfo} :
     \E t \in DOMAIN tinfo : tinfo[t].job = j /\ tinfo[t].maxFails >= 0 /\
        Cardinality({x \in DOMAIN tinfo : tinfo[x].job = j /\ h2[x] # <<>> /\ Last(h2[x]).k = "Failed"}) > tinfo[t].maxFails}

\* a server step: the new core / job state, the monitors fed from the emitted events
Commit(C, J) ==
  /\ task' = C.task /\ queue' = C.queue /\ redirect' = C.redirect /\ srv' = C.srv /\ needSched' = C.ns
  /\ job' = J.job
  /\ hist' = HistAfter(hist, J.ev)
  /\ nCompleted' = CompletedAfter(nCompleted, J.ev)
  /\ exceeded' = ExceededAfter(HistAfter(hist, J.ev))
  /\ panic' = IF C.pn # "" THEN C.pn ELSE J.pn
  /\ drift' = C.drift \cap DOMAIN C.srv
  /\ journal' = IF Journaling THEN journal \o J.ev ELSE journal
  /\ late' = late

-----------------------------------------------------------------------------
(* Initial state *)
FreshSrv(w) == [kind |-> "sn", assigned |-> {}, prefilled |-> {}, free |-> <<WorkerCpus[w]>>, total |-> <<WorkerCpus[w]>>,
                blocked |-> {}, stopping |-> FALSE, group |-> WorkerGroup[w], mn |-> 0, root |-> FALSE]
FreshWk(w) == [running |-> {}, backlog |-> {}, blocked |-> {}, s2w |-> <<>>, w2s |-> <<>>, stopped |-> FALSE, remaining |-> WorkerLife[w]]
LateSeq == SetToSortSeq(LateWorkers, <)

Init ==
  /\ task = <<>> /\ redirect = <<>> /\ needSched = TRUE
  /\ queue = [rq \in 0..(Len(Classes) - 1) |-> [ready |-> {}, hasPrefill |-> FALSE, pprio |-> -1, pset |-> {}]]
  /\ srv = [w \in DOMAIN WorkerCpus \ LateWorkers |-> FreshSrv(w)]
  /\ wk = [w \in DOMAIN WorkerCpus \ LateWorkers |-> FreshWk(w)]
  /\ wkq = [w \in DOMAIN WorkerCpus \ LateWorkers |-> [rq \in 0..(Len(Classes) - 1) |-> <<>>]]
  /\ fut = {} /\ job = <<>> /\ streams = <<>> /\ now = 0 /\ classes = Classes
  /\ tinfo = <<>> /\ hist = <<>> /\ wstarts = <<>> /\ ranOk = {} /\ tstops = {} /\ cancelAck = <<>> /\ wCancel = {} /\ gaveBack = {}
  /\ nCompleted = <<>> /\ mustCrash = <<>> /\ mayCrash = <<>> /\ exceeded = {}
  /\ panic = "" /\ submitted = {} /\ armedFail = {} /\ drift = {} /\ journal = <<>> /\ late = {}
  /\ budget = [losses |-> MaxLosses, cancels |-> MaxCancels, fails |-> MaxFails, launchFails |-> MaxLaunchFails, ticks |-> MaxTicks, connects |-> Cardinality(LateWorkers)]

unchangedWorkerSide == UNCHANGED <<wkq, fut, wstarts, ranOk, tstops, wCancel, gaveBack, armedFail>>
unchangedStatic == UNCHANGED <<streams, now, classes>>

-----------------------------------------------------------------------------
(* Client: submit a closed job from the menu *)
ClientSubmit(i) ==
  /\ panic = "" /\ i \in DOMAIN Menu /\ i \notin submitted
  /\ LET s == Menu[i]
         j == s.job
         attach == j \in DOMAIN OpenJobs
         mf == IF attach THEN OpenJobs[j] ELSE s.maxFails
         ids == [k \in DOMAIN s.tasks |-> j * 1000 + s.tasks[k].id]
         ni == [t \in SeqSet(ids) |->
                  LET x == CHOOSE x \in SeqSet(s.tasks) : j * 1000 + x.id = t IN
                  [job |-> j, deps |-> {j * 1000 + d : d \in x.deps}, prio |-> x.prio, rq |-> x.rq, climit |-> s.climit, tlimit |-> s.tlimit, maxFails |-> mf]]
         jb == IF attach THEN [job[j] EXCEPT !.n = @ + Len(ids), !.tasks = [t \in SeqSet(ids) |-> "Waiting"] @@ @]
               ELSE [open |-> FALSE, completed |-> FALSE, n |-> Len(ids), maxFails |-> mf,
                     cnt |-> [running |-> 0, finished |-> 0, failed |-> 0, canceled |-> 0, aborted |-> 0],
                     tasks |-> [t \in SeqSet(ids) |-> "Waiting"]]
         C == OnNewTasks(CoreRec, ids, ni)
         info2 == ni @@ tinfo
         \* a new task is "late" when an ancestor had already ended badly (or is itself late): on_new_tasks drops the dependency
         RECURSIVE Anc(_, _)
         Anc(S, acc) == LET nxt == (UNION {info2[c].deps : c \in S} \cap DOMAIN info2) \ acc IN IF nxt = {} THEN acc ELSE Anc(nxt, acc \cup nxt)
         dead(a) == a \in late \/ (a \in DOMAIN hist /\ Out(a) \in {"Failed", "Canceled", "Aborted"})
     IN /\ (attach => j \in DOMAIN job /\ job[j].open)          \* (a submit into a closed / unknown job is rejected without effect)
        /\ (~attach => j \notin DOMAIN job)
        \* validate_submit: every dependency is an earlier task of the same submit or a task the job already has
        /\ \A k \in DOMAIN s.tasks : \A d \in s.tasks[k].deps :
              \/ \E k2 \in 1..(k - 1) : s.tasks[k2].id = d
              \/ attach /\ j * 1000 + d \in DOMAIN job[j].tasks
        /\ tinfo' = info2
        /\ submitted' = submitted \cup {i}
        /\ task' = C.task /\ queue' = C.queue /\ redirect' = C.redirect /\ srv' = C.srv /\ needSched' = C.ns
        /\ job' = (j :> jb) @@ job /\ panic' = C.pn
        /\ hist' = [t \in DOMAIN ni |-> <<>>] @@ hist
        /\ wstarts' = [t \in DOMAIN ni |-> <<>>] @@ wstarts
        /\ mustCrash' = [t \in DOMAIN ni |-> 0] @@ mustCrash /\ mayCrash' = [t \in DOMAIN ni |-> 0] @@ mayCrash
        /\ nCompleted' = IF attach THEN nCompleted ELSE (j :> 0) @@ nCompleted
        /\ wk' = [w \in DOMAIN wk |-> [wk[w] EXCEPT !.s2w = @ \o C.out[w]]]
        /\ journal' = IF Journaling THEN Append(journal, [k |-> "Submit", j |-> j, i |-> i]) ELSE journal
        /\ late' = late \cup {t \in DOMAIN ni : \E a \in Anc({t}, {}) : dead(a)}
  /\ UNCHANGED <<exceeded, wkq, fut, ranOk, tstops, wCancel, gaveBack, armedFail, cancelAck, budget, drift>> /\ unchangedStatic

(* Client: open a job / close it (a closed job completes when all its tasks are terminal - possibly at once) *)
ClientOpen(j) ==
  /\ panic = "" /\ j \in DOMAIN OpenJobs /\ j \notin DOMAIN job
  /\ job' = (j :> [open |-> TRUE, completed |-> FALSE, n |-> 0, maxFails |-> OpenJobs[j],
                    cnt |-> [running |-> 0, finished |-> 0, failed |-> 0, canceled |-> 0, aborted |-> 0], tasks |-> <<>>]) @@ job
  /\ nCompleted' = (j :> 0) @@ nCompleted
  /\ UNCHANGED <<coreVars, wk, fut, streams, now, classes, tinfo, hist, wstarts, ranOk, tstops, cancelAck, wCancel, gaveBack, mustCrash, mayCrash,
                  exceeded, panic, wkq, submitted, budget, armedFail, drift, journal, late>>
ClientClose(j) ==
  /\ panic = "" /\ j \in DOMAIN job /\ job[j].open
  /\ Commit(CoreRec, CheckTermination([JobRec EXCEPT !.job[j].open = FALSE], j))
  /\ UNCHANGED <<wk, tinfo, submitted, budget, cancelAck, mustCrash, mayCrash>> /\ unchangedWorkerSide /\ unchangedStatic

(* Client: cancel a job (core first, then the job layer; the answer covers the tasks that were not terminal) *)
ClientCancel(j) ==
  /\ panic = "" /\ j \in DOMAIN job /\ budget.cancels > 0
  /\ LET ids == NonTerminal(job[j])
         C == IF ids = {} THEN CoreRec ELSE OnCancel(CoreRec, ids)
         J1 == IF ids = {} THEN JobRec
               ELSE CheckTermination(JEv(JEv([JobRec EXCEPT !.job[j] = SetStates(@, ids, "Canceled")], [k |-> "JobCancel", j |-> j]),
                                         [k |-> "TasksCanceled", ts |-> SortedIds(ids)]), j)
     IN /\ Commit(C, J1)
        /\ wk' = [w \in DOMAIN wk |-> [wk[w] EXCEPT !.s2w = @ \o C.out[w]]]
        /\ cancelAck' = [t \in DOMAIN cancelAck \cup ids |-> IF t \in DOMAIN cancelAck THEN cancelAck[t] ELSE Len(HistAfter(hist, J1.ev)[t])]
  /\ budget' = [budget EXCEPT !.cancels = @ - 1]
  /\ UNCHANGED <<tinfo, submitted, mustCrash, mayCrash>> /\ unchangedWorkerSide /\ unchangedStatic

-----------------------------------------------------------------------------
(* Scheduler.  The solver is abstracted: it may ask for any number of tasks of each class (taken from the queue in the *)
(* real order: top priority entry, prefilled tasks, lower priorities) and put them on any workers whose FREE resources *)
(* (server view) cover them and that have not blocked the request.  create_task_mapping / process_proactive_filling /  *)
(* send_messages follow the code.                                                                                      *)
PriosOf(S) == {PrioOf(t) : t \in S}
QueueSeq(q) == \* ready entries: priority descending, id ascending
  SetToSortSeq(q.ready, LAMBDA a, b : PrioOf(a) > PrioOf(b) \/ (PrioOf(a) = PrioOf(b) /\ a < b))
TakeOrders(q) == \* the possible orders in which take_tasks hands out tasks (prefill set order is arbitrary)
  LET qs == QueueSeq(q)
      topP == IF qs = <<>> THEN -1 ELSE PrioOf(qs[1])
      first == SelectSeq(qs, LAMBDA t : PrioOf(t) = topP)
      rest == SelectSeq(qs, LAMBDA t : PrioOf(t) # topP)
      pperms == IF q.hasPrefill THEN SetToSeqs(q.pset) ELSE {<<>>}
  IN IF q.hasPrefill /\ qs # <<>> /\ q.pprio = topP THEN {first \o pp \o rest : pp \in pperms}
     ELSE {pp \o qs : pp \in pperms}

\* take_tasks: queue state after handing out the first n tasks of order o (drain_prefill drops an emptied prefill)
QueueAfterTake(q, o, n) ==
  LET taken == {o[i] : i \in 1..n}
      ps == q.pset \ taken
      drop == q.hasPrefill /\ ps = {} /\ n > 0
  IN [ready |-> q.ready \ taken,
      hasPrefill |-> IF drop THEN FALSE ELSE q.hasPrefill,
      pprio |-> IF drop THEN -1 ELSE q.pprio,
      pset |-> ps]

\* a choice of the scheduler: for every class an order and a count, and for every taken task a worker and a variant
ClassChoices(rq) == {<<o, n>> : o \in TakeOrders(queue[rq]), n \in IF IsMn(rq) THEN {0} ELSE 0..Cardinality(queue[rq].ready \cup queue[rq].pset)}

\* multi-node placements of one round: for every multi-node class at most one task (the top of its queue: take_one) gets a
\* sequence (root first) of distinct workers of one group that are free and not used by another placement of the round
MnClasses == {rq \in DOMAIN queue : IsMn(rq) /\ queue[rq].ready # {}}
MnTop(rq) == QueueSeq(queue[rq])[1]
FreeWorkers(used) == {w \in DOMAIN srv : IsFreeW(srv[w]) /\ w \notin used}
RECURSIVE MnChoices(_, _)
MnChoices(rqs, used) == \* set of functions rq -> worker sequence (<<>> = not placed)
  IF rqs = {} THEN {<<>>}
  ELSE LET rq == Min(rqs)
           n == Variant(rq, 0).n_nodes
           seqs == {s \in UNION {SetToSeqs(S) : S \in {S \in SUBSET FreeWorkers(used) : Cardinality(S) = n}} :
                      Cardinality({srv[s[i]].group : i \in DOMAIN s}) <= 1}
       IN {(rq :> <<>>) @@ f : f \in MnChoices(rqs \ {rq}, used)}
          \cup UNION {{(rq :> s) @@ f : f \in MnChoices(rqs \ {rq}, used \cup SeqSet(s))} : s \in seqs}
MnUsed(mn) == UNION {SeqSet(mn[rq]) : rq \in DOMAIN mn}
ApplyMn(C, mn) ==
  FoldSeqLeft(LAMBDA CC, rq :
                IF mn[rq] = <<>> \/ CC.pn # "" THEN CC
                ELSE LET t == MnTop(rq)
                         C1 == FoldSeqLeft(LAMBDA C5, i : SetMn(C5, mn[rq][i], t, i = 1), CC, [i \in DOMAIN mn[rq] |-> i])
                     IN IF C1.pn # "" THEN C1
                        ELSE IF C1.task[t].st # "W" \/ C1.task[t].nd # 0 THEN Pn(C1, "mn_mapping_state")
                        ELSE [C1 EXCEPT !.task[t] = [@ EXCEPT !.st = "M", !.w = mn[rq][1], !.v = 0, !.ws = mn[rq]],
                                        !.queue[rq].ready = @ \ {t},
                                        !.mnsent = Append(@, t)],
              C, SortedIds(DOMAIN mn))
Fits(m) == \* m : [taken tasks -> <<worker, variant>>]
  /\ \A t \in DOMAIN m : LET w == m[t][1]  v == m[t][2] IN
        /\ v < Len(classes[task[t].rq + 1])
        /\ LifetimeCovers(w, task[t].rq, v)
        /\ srv[w].kind = "sn" /\ ~srv[w].stopping /\ <<task[t].rq, v>> \notin srv[w].blocked /\ TotalCovers(w, task[t].rq, v)
        /\ ~IsMn(task[t].rq)
  /\ \A w \in {x \in DOMAIN srv : srv[x].kind = "sn"} : \A r \in 1..NRes(w) :
        SumOver({t \in DOMAIN m : m[t][1] = w}, LAMBDA t : ReqAmount(task[t].rq, m[t][2], r, w)) <= srv[w].free[r]

\* the scheduler assumption used for the progress property C02: a class is cut short only when no worker can take one more task
\* of it (the real solver is compared with this on recorded runs: C02_QuiescentOk in HQTrace, C15 in SchedTrace)
MaximalChoice(ch, m) ==
  \A rq \in {x \in DOMAIN queue : ~IsMn(x)} :
     ch[rq][2] < Cardinality(queue[rq].ready \cup queue[rq].pset) =>
       ~\E w \in DOMAIN srv :
           /\ srv[w].kind = "sn" /\ ~srv[w].stopping /\ <<rq, 0>> \notin srv[w].blocked /\ TotalCovers(w, rq, 0) /\ LifetimeCovers(w, rq, 0)
           /\ \A r \in 1..NRes(w) :
                 SumOver({t \in DOMAIN m : m[t][1] = w}, LAMBDA t : ReqAmount(task[t].rq, m[t][2], r, w)) + ReqAmount(rq, 0, r, w) <= srv[w].free[r]

MaximalMn(mn, m) ==
  \A rq \in DOMAIN mn : mn[rq] = <<>> =>
     LET used == MnUsed(mn) \cup {m[t][1] : t \in DOMAIN m}
         n == Variant(rq, 0).n_nodes
     IN ~\E g \in {srv[w].group : w \in DOMAIN srv} : Cardinality({w \in FreeWorkers(used) : srv[w].group = g}) >= n

ApplyMapping(C, order, m) == \* order: Seq of taken tasks in processing order
  LET Step(CC, t) ==
        IF CC.pn # "" THEN CC ELSE
        LET x == CC.task[t]  w == m[t][1]  v == m[t][2]
            C1 == InsertSn(CC, w, t, x.rq, v)
        IN CASE x.st = "W" -> [C1 EXCEPT !.task[t] = [@ EXCEPT !.st = "A", !.w = w, !.v = v], !.asg = Append(@, [t |-> t, w |-> w, v |-> v])]
             [] x.st = "R" ->
                  \* the redirect is recorded also for a "dummy" redirect back to the same worker; an older target is released
                  LET C2 == IF t \in DOMAIN C1.redirect THEN RemoveSn(C1, C1.redirect[t].w, t, x.rq, C1.redirect[t].v) ELSE C1
                  IN [C2 EXCEPT !.redirect = (t :> [w |-> w, v |-> v]) @@ Without(@, t)]
             [] x.st = "P" ->
                  LET C2 == RemovePrefill(C1, x.w, t) IN
                  IF t \in DOMAIN C2.redirect THEN Pn(C2, "mapping_redirect_exists")
                  ELSE [C2 EXCEPT !.task[t].st = "R", !.redirect = (t :> [w |-> w, v |-> v]) @@ @, !.rets = Append(@, [t |-> t, w |-> x.w])]
             [] OTHER -> Pn(CC, "mapping_state")
  IN FoldSeqLeft(Step, C, order)

\* process_proactive_filling with the workers visited in order wo
TopPriority(C) == LET S == UNION {PriosOf(C.queue[rq].ready) : rq \in DOMAIN C.queue} IN IF S = {} THEN 0 ELSE Max(S)
ProactiveFill(C, wo, reserve, pfmax) ==
  LET top == TopPriority(C)
      StepQ(CC, rq) ==
        LET q == CC.queue[rq]
            qtop == IF q.ready = {} THEN -1 ELSE Max(PriosOf(q.ready))
            firstEntry == {t \in q.ready : PrioOf(t) = qtop}
            sizeNoPrefill == IF q.ready = {} \/ (q.hasPrefill /\ q.pprio # qtop) THEN 0 ELSE Cardinality(firstEntry)
            size == IF sizeNoPrefill > reserve THEN sizeNoPrefill - reserve ELSE 0
            ws == SelectSeq(wo, LAMBDA w : /\ CC.srv[w].kind = "sn"
                                           /\ \E i \in DOMAIN CC.asg : CC.asg[i].w = w /\ CC.task[CC.asg[i].t].rq = rq
                                           /\ ~\E t \in CC.srv[w].prefilled : CC.task[t].rq = rq)
            psize == IF ws = <<>> THEN 0 ELSE Min({size \div Len(ws), pfmax})
            StepW(CW, w) ==
              LET qq == CW.queue[rq]
                  entry == SortedIds({t \in qq.ready : PrioOf(t) = qtop})
                  taken == SubSeq(entry, 1, Min({psize, Len(entry)}))
                  good == SelectSeq(taken, LAMBDA t : CW.task[t].st = "W")
                  goodS == SeqSet(good)
                  \* non-waiting (retracting) tasks go straight back to the ready entry
                  ps == (IF qq.hasPrefill THEN qq.pset ELSE {}) \cup goodS
              IN IF CW.pn # "" THEN CW
                 ELSE IF entry = <<>> THEN Pn(CW, "take_tasks_for_prefill")
                 ELSE IF qq.hasPrefill /\ qq.pprio # qtop THEN Pn(CW, "take_tasks_for_prefill_priority")
                 ELSE [CW EXCEPT !.queue[rq] = IF ps = {} THEN [NoPrefill(qq) EXCEPT !.ready = qq.ready \ goodS]
                                               ELSE [ready |-> qq.ready \ goodS, hasPrefill |-> TRUE, pprio |-> qtop, pset |-> ps],
                                 !.task = [t \in DOMAIN CW.task |-> IF t \in goodS THEN [CW.task[t] EXCEPT !.st = "P", !.w = w] ELSE CW.task[t]],
                                 !.srv[w].prefilled = @ \cup goodS,
                                 !.pfs = @ \o [i \in DOMAIN good |-> [t |-> good[i], w |-> w]]]
        IN IF CC.pn # "" \/ qtop # top \/ q.ready = {} \/ size = 0 \/ psize = 0 THEN CC
           ELSE FoldSeqLeft(StepW, CC, ws)
  IN FoldSeqLeft(StepQ, C, SortedIds(DOMAIN C.queue))

\* send_messages: per worker RetractTasks first, then one ComputeTasks (prefills without variant, then assignments by priority)
SendMapping(C) ==
  LET ws == {C.asg[i].w : i \in DOMAIN C.asg} \cup {C.rets[i].w : i \in DOMAIN C.rets} \cup {C.pfs[i].w : i \in DOMAIN C.pfs}
      MsgsFor(w) ==
        LET rs == SelectSeq(C.rets, LAMBDA x : x.w = w)
            ps == SelectSeq(C.pfs, LAMBDA x : x.w = w)
            as == SortSeq(SelectSeq(C.asg, LAMBDA x : x.w = w), LAMBDA a, b : C.task[a.t].prio > C.task[b.t].prio)
            ct == [i \in DOMAIN ps |-> ComputeOf(C, ps[i].t, -1)] \o [i \in DOMAIN as |-> ComputeOf(C, as[i].t, as[i].v)]
        IN (IF rs = <<>> THEN <<>> ELSE <<[k |-> "Retract", ids |-> [i \in DOMAIN rs |-> rs[i].t]]>>)
           \o (IF ct = <<>> THEN <<>> ELSE <<[k |-> "Compute", tasks |-> ct]>>)
      out1 == [w \in DOMAIN C.out |-> IF w \in ws THEN C.out[w] \o MsgsFor(w) ELSE C.out[w]]
      \* multi-node tasks: one ComputeTasks to the root, carrying the node list
      out2 == FoldSeqLeft(LAMBDA o, t : Send(o, C.task[t].ws[1], [k |-> "Compute",
                             tasks |-> <<[t |-> t, inst |-> C.task[t].inst, v |-> 0, rq |-> C.task[t].rq, nodes |-> C.task[t].ws]>>]),
                          out1, C.mnsent)
  IN [C EXCEPT !.out = out2, !.asg = <<>>, !.rets = <<>>, !.pfs = <<>>, !.mnsent = <<>>]

RECURSIVE ChoicesPerClass(_)
ChoicesPerClass(rqs) == \* set of functions rq -> <<order, n>>
  IF rqs = {} THEN {<<>>}
  ELSE LET rq == Min(rqs) IN {(rq :> c) @@ f : c \in ClassChoices(rq), f \in ChoicesPerClass(rqs \ {rq})}

Schedule ==
  /\ panic = "" /\ needSched
  /\ \E ch \in ChoicesPerClass(DOMAIN queue) :
       LET takenSeq == FoldSeqLeft(LAMBDA acc, rq : acc \o SubSeq(ch[rq][1], 1, ch[rq][2]), <<>>, SortedIds(DOMAIN queue))
           taken == SeqSet(takenSeq)
           q2 == [rq \in DOMAIN queue |-> QueueAfterTake(queue[rq], ch[rq][1], ch[rq][2])]
       IN \E m \in [taken -> (DOMAIN srv) \X (0..(Max({Len(Classes[i]) : i \in DOMAIN Classes}) - 1))] : \E mn \in MnChoices(MnClasses, {m[t][1] : t \in taken}) :
            /\ Fits(m)
            /\ (Eager => MaximalChoice(ch, m) /\ MaximalMn(mn, m))
            /\ \E wo \in SetToSeqs(DOMAIN srv) :
                 LET C1 == ApplyMn(ApplyMapping([CoreRec EXCEPT !.queue = q2], takenSeq, m), mn)
                     C2 == SendMapping(ProactiveFill(C1, wo, PfReserve, PfMax))
                     C3 == [C2 EXCEPT !.ns = FALSE]
                 IN /\ Commit(C3, JobRec)
                    /\ wk' = [w \in DOMAIN wk |-> [wk[w] EXCEPT !.s2w = @ \o C3.out[w]]]
  /\ UNCHANGED <<tinfo, submitted, budget, cancelAck, mustCrash, mayCrash>> /\ unchangedWorkerSide /\ unchangedStatic

-----------------------------------------------------------------------------
(* Server receives the next message of worker w *)
SrvRecv(w) ==
  /\ panic = "" /\ w \in DOMAIN wk /\ wk[w].w2s # <<>> /\ Head(wk[w].w2s).k # "WStop"
  /\ LET m == Head(wk[w].w2s)
         r == IF m.k = "Update" THEN OnTaskUpdate(CoreRec, JobRec, w, m.ups)
              ELSE <<OnRetractResponse(CoreRec, w, m.ids), JobRec>>
     IN /\ Commit(r[1], r[2])
        /\ wk' = [x \in DOMAIN wk |-> IF x = w THEN [wk[x] EXCEPT !.w2s = Tail(@), !.s2w = @ \o r[1].out[x]] ELSE [wk[x] EXCEPT !.s2w = @ \o r[1].out[x]]]
  /\ UNCHANGED <<tinfo, submitted, budget, cancelAck, mustCrash, mayCrash>> /\ unchangedWorkerSide /\ unchangedStatic

-----------------------------------------------------------------------------
(* Worker side (worker/reactor.rs, state.rs, rpc.rs).                                                                   *)
(* W = [running, wq, blocked, cur (updates of the message being built), msgs (finished messages), starts, stops, fut,   *)
(*      armed, ok, used]; the resource allocator is abstracted to amounts (its index level is module Alloc)             *)
AllocFor(rq, v, w) == <<[r |-> 0, amount |-> ReqAmount(rq, v, 1, w), idx |-> <<>>]>>
WFreeOf(W, w) == srv[w].total[1] - SumOver(W.running, LAMBDA x : AllocAmount(x.alloc, 1))
WRec(w) == [running |-> wk[w].running, wq |-> wkq[w], blocked |-> wk[w].blocked, cur |-> <<>>, msgs |-> <<>>, starts |-> <<>>, stops |-> <<>>,
            fut |-> fut, armed |-> armedFail, ok |-> TRUE, used |-> FALSE, rem |-> wk[w].remaining]
Flush(W) == IF W.cur = <<>> THEN W ELSE [W EXCEPT !.msgs = Append(@, [k |-> "Update", ups |-> W.cur]), !.cur = <<>>]

\* try_start_task (launch failures come from armedFail)
WStart(W, w, t, inst, rq, v, prefilled) ==
  IF W.rem >= 0 /\ W.rem < Variant(rq, v).min_time THEN
     \* hard reject: the remaining life time of the worker does not cover the time request (never unblocked)
     [W EXCEPT !.cur = Append(@, [k |-> "Reject", t |-> t, v |-> v]), !.ok = FALSE]
  ELSE IF t \in W.armed THEN
     [W EXCEPT !.cur = Append(@, [k |-> "Failed", t |-> t, cls |-> "launch"]), !.armed = @ \ {t},
               !.starts = Append(@, [w |-> w, t |-> t, inst |-> inst, ok |-> FALSE, pf |-> prefilled]), !.ok = FALSE]
  ELSE [W EXCEPT !.running = @ \cup {[t |-> t, inst |-> inst, v |-> v, rq |-> rq, alloc |-> AllocFor(rq, v, w)]},
                 !.cur = Append(@, [k |-> IF prefilled THEN "RunningPrefilled" ELSE "Running", t |-> t, v |-> v]),
                 !.starts = Append(@, [w |-> w, t |-> t, inst |-> inst, ok |-> TRUE, pf |-> prefilled]), !.fut = @ \cup {[w |-> w, t |-> t, inst |-> inst]}, !.ok = TRUE]
\* prefill_loop: start backlog tasks of the class (last in, first out) on a free allocation until one starts
RECURSIVE WPrefillLoop(_, _, _, _)
WPrefillLoop(W, w, rq, v) ==
  IF W.wq[rq] = <<>> THEN [W EXCEPT !.used = FALSE]
  ELSE LET x == Last(W.wq[rq])
           W1 == WStart([W EXCEPT !.wq[rq] = Front(@)], w, x.t, x.inst, rq, v, TRUE)
       IN IF W1.ok THEN [W1 EXCEPT !.used = TRUE] ELSE WPrefillLoop(W1, w, rq, v)

\* compute_tasks
WCompute(W0, w, tasks) ==
  LET Step(W, ct) ==
        IF ct.v < 0 THEN [W EXCEPT !.wq[ct.rq] = Append(@, [t |-> ct.t, inst |-> ct.inst])]
        ELSE IF WFreeOf(W, w) < ReqAmount(ct.rq, ct.v, 1, w)
             THEN [W EXCEPT !.blocked = @ \cup {<<ct.rq, ct.v>>}, !.cur = Append(@, [k |-> "Reject", t |-> ct.t, v |-> ct.v])]
             ELSE LET W1 == WStart(W, w, ct.t, ct.inst, ct.rq, ct.v, FALSE) IN
                  IF W1.ok THEN W1 ELSE WPrefillLoop(W1, w, ct.rq, ct.v)
  IN Flush(FoldSeqLeft(Step, W0, tasks))

\* handle_task_future after the task ended: report, hand the allocation over, unblock requests; one message per ended task
WTaskEnd(W0, w, x, report) ==
  LET W1 == [W0 EXCEPT !.running = @ \ {x}, !.fut = @ \ {[w |-> w, t |-> x.t, inst |-> x.inst]},
                       !.cur = IF report = "none" THEN <<>>
                               ELSE IF report = "Finished" THEN <<[k |-> "Finished", t |-> x.t]>>
                               ELSE <<[k |-> "Failed", t |-> x.t, cls |-> "task"]>>]
      W2 == WPrefillLoop(W1, w, x.rq, x.v)
      enabled == {b \in W2.blocked : WFreeOf(W2, w) >= ReqAmount(b[1], b[2], 1, w)}
      es == SetToSortSeq(enabled, LAMBDA a, c : a[1] * 100 + a[2] < c[1] * 100 + c[2])
  IN Flush(IF W2.used THEN W2
           ELSE [W2 EXCEPT !.blocked = @ \ enabled, !.cur = @ \o [i \in DOMAIN es |-> [k |-> "Enable", rq |-> es[i][1], v |-> es[i][2]]]])

WCommit(W, w, newS2w) ==
  /\ wk' = [wk EXCEPT ![w] = [@ EXCEPT !.running = W.running,
                                         !.backlog = UNION {{W.wq[rq][i].t : i \in DOMAIN W.wq[rq]} : rq \in DOMAIN W.wq},
                                         !.blocked = W.blocked, !.s2w = newS2w, !.w2s = @ \o W.msgs]]
  /\ wkq' = [wkq EXCEPT ![w] = W.wq]
  /\ fut' = W.fut /\ armedFail' = W.armed
  /\ wstarts' = FoldSeqLeft(LAMBDA ws, s : [ws EXCEPT ![s.t] = Append(@, [w |-> s.w, inst |-> s.inst, ok |-> s.ok, now |-> now, pf |-> s.pf])], wstarts, W.starts)
  /\ tstops' = tstops \cup SeqSet(W.stops)

WkRecv(w) ==
  /\ panic = "" /\ w \in DOMAIN wk /\ wk[w].s2w # <<>> /\ ~wk[w].stopped
  /\ LET m == Head(wk[w].s2w)
         rest == Tail(wk[w].s2w)
     IN CASE m.k = "Compute" ->
               /\ WCommit(WCompute(WRec(w), w, m.tasks), w, rest)
               /\ gaveBack' = gaveBack \ {<<w, m.tasks[i].t>> : i \in DOMAIN m.tasks}
               /\ UNCHANGED <<wCancel>>
          [] m.k = "Retract" ->
               LET ids == SeqSet(m.ids)
                   W == WRec(w)
                   removed == {t \in ids : \E rq \in DOMAIN W.wq : \E i \in DOMAIN W.wq[rq] : W.wq[rq][i].t = t}
                   W1 == [W EXCEPT !.wq = [rq \in DOMAIN W.wq |-> SelectSeq(W.wq[rq], LAMBDA x : x.t \notin ids)],
                                   !.msgs = IF m.ids = <<>> THEN <<>> ELSE <<[k |-> "RetractResponse", ids |-> SortedIds(removed)]>>]
               IN /\ WCommit(W1, w, rest)
                  /\ gaveBack' = gaveBack \cup {<<w, t>> : t \in removed}
                  /\ UNCHANGED <<wCancel>>
          [] m.k = "Cancel" ->
               LET ids == SeqSet(m.ids)
                   W == WRec(w)
                   \* backlog entries of canceled tasks are dropped; running ones get the stop signal and end (each with its own message)
                   W1 == [W EXCEPT !.wq = [rq \in DOMAIN W.wq |-> SelectSeq(W.wq[rq], LAMBDA x : x.t \notin ids)]]
                   hit == SetToSortSeq({x \in W1.running : x.t \in ids}, LAMBDA a, b : a.t < b.t)
                   W2 == FoldSeqLeft(LAMBDA WW, x :
                                       LET WS == [WW EXCEPT !.stops = Append(@, [t |-> x.t, w |-> w, inst |-> x.inst, reason |-> "cancel"])] IN
                                       IF SlowStop THEN [WS EXCEPT !.fut = @ \ {[w |-> w, t |-> x.t, inst |-> x.inst]}]   \* stays in `running`, dying
                                       ELSE WTaskEnd(WS, w, x, "none"),
                                     W1, hit)
               IN /\ WCommit(W2, w, rest)
                  /\ wCancel' = wCancel \cup {<<w, t>> : t \in ids}
                  /\ UNCHANGED <<gaveBack>>
  /\ UNCHANGED <<coreVars, job, tinfo, hist, ranOk, cancelAck, nCompleted, exceeded, mustCrash, mayCrash, panic, submitted, budget, drift, journal, late>> /\ unchangedStatic

\* the (fake) task future of execution f ends, successfully or with an error
TaskExit(f, ok) ==
  /\ panic = "" /\ f \in fut /\ f.w \in DOMAIN wk /\ (ok \/ budget.fails > 0)
  /\ \E x \in wk[f.w].running : x.t = f.t /\ x.inst = f.inst /\
        WCommit(WTaskEnd(WRec(f.w), f.w, x, IF ok THEN "Finished" ELSE "Failed"), f.w, wk[f.w].s2w)
  /\ ranOk' = IF ok THEN ranOk \cup {[t |-> f.t, w |-> f.w, inst |-> f.inst]} ELSE ranOk
  /\ budget' = IF ok THEN budget ELSE [budget EXCEPT !.fails = @ - 1]
  /\ UNCHANGED <<coreVars, job, tinfo, hist, cancelAck, nCompleted, exceeded, mustCrash, mayCrash, panic, submitted, wCancel, gaveBack, drift, journal, late>> /\ unchangedStatic

\* the process of an execution that was told to stop is gone (SlowStop): only now the worker releases its resources, starts
\* pre-sent tasks and re-enables request shapes
Dying(w) == {x \in wk[w].running : [w |-> w, t |-> x.t, inst |-> x.inst] \notin fut}
TaskDie(w, x) ==
  /\ panic = "" /\ w \in DOMAIN wk /\ x \in Dying(w)
  /\ WCommit(WTaskEnd(WRec(w), w, x, "none"), w, wk[w].s2w)
  /\ UNCHANGED <<coreVars, job, tinfo, hist, ranOk, cancelAck, nCompleted, exceeded, mustCrash, mayCrash, panic, submitted, wCancel, gaveBack, budget, drift, journal, late>>
  /\ unchangedStatic

\* the launch of a task that is on its way to a worker will fail
ArmLaunchFail(t) ==
  /\ panic = "" /\ budget.launchFails > 0 /\ t \notin armedFail
  /\ \E w \in DOMAIN wk : \E i \in DOMAIN wk[w].s2w : wk[w].s2w[i].k = "Compute" /\ \E k \in DOMAIN wk[w].s2w[i].tasks : wk[w].s2w[i].tasks[k].t = t
  /\ armedFail' = armedFail \cup {t}
  /\ budget' = [budget EXCEPT !.launchFails = @ - 1]
  /\ UNCHANGED <<vars, panic, wkq, submitted, drift, journal, late>>

-----------------------------------------------------------------------------
(* Time.  One hour passes: task time limits expire (the execution is told to stop and ends failed), the periodic check of *)
(* every worker gives back the pre-sent tasks whose time request its remaining life no longer covers, and a worker whose *)
(* life is over drops its backlog, stops its tasks and announces its stop.                                              *)
TimeTick ==
  /\ panic = "" /\ budget.ticks > 0
  /\ LET now2 == now + 1
         Rem2(w) == IF wk[w].remaining <= 0 \/ wk[w].stopped THEN wk[w].remaining ELSE wk[w].remaining - 1
         StepW(A, w) ==
           LET W0 == [running |-> wk[w].running, wq |-> wkq[w], blocked |-> wk[w].blocked, cur |-> <<>>, msgs |-> <<>>, starts |-> A.starts, stops |-> A.stops,
                      fut |-> A.fut, armed |-> A.armed, ok |-> TRUE, used |-> FALSE, rem |-> Rem2(w)]
               \* (a) executions whose time limit is over
               over == SetToSortSeq({x \in W0.running : tinfo[x.t].tlimit > 0 /\
                                      \E i \in DOMAIN wstarts[x.t] : wstarts[x.t][i].w = w /\ wstarts[x.t][i].inst = x.inst /\ wstarts[x.t][i].ok
                                                                       /\ now2 - wstarts[x.t][i].now >= tinfo[x.t].tlimit},
                                    LAMBDA a, b : a.t < b.t)
               W1 == FoldSeqLeft(LAMBDA WW, x : WTaskEnd([WW EXCEPT !.stops = Append(@, [t |-> x.t, w |-> w, inst |-> x.inst, reason |-> "timeout"])], w, x, "Failed"),
                                 W0, over)
               \* (b) retract check of the backlog
               short == {rq \in DOMAIN W1.wq : W1.wq[rq] # <<>> /\ W1.rem >= 0 /\ W1.rem < Min({Variant(rq, v - 1).min_time : v \in DOMAIN classes[rq + 1]})}
               rejs == FoldSeqLeft(LAMBDA acc, rq : acc \o [i \in DOMAIN W1.wq[rq] |-> [k |-> "Reject", t |-> W1.wq[rq][i].t, v |-> -1]], <<>>, SortedIds(short))
               W2 == [W1 EXCEPT !.wq = [rq \in DOMAIN W1.wq |-> IF rq \in short THEN <<>> ELSE W1.wq[rq]],
                                !.msgs = IF rejs = <<>> THEN @ ELSE Append(@, [k |-> "Update", ups |-> rejs])]
               \* (c) end of life
               ends == W2.rem = 0 /\ ~wk[w].stopped
               W3 == IF ends THEN [W2 EXCEPT !.wq = [rq \in DOMAIN W2.wq |-> <<>>], !.running = {}, !.fut = {f \in @ : f.w # w},
                                              !.stops = @ \o [i \in 1..Cardinality(W2.running) |->
                                                  LET x == SetToSortSeq(W2.running, LAMBDA a, b : a.t < b.t)[i] IN [t |-> x.t, w |-> w, inst |-> x.inst, reason |-> "cancel"]],
                                              !.msgs = Append(@, [k |-> "WStop"])]
                     ELSE W2
           IN [A EXCEPT !.wk[w] = [wk[w] EXCEPT !.running = W3.running,
                                                 !.backlog = UNION {{W3.wq[rq][i].t : i \in DOMAIN W3.wq[rq]} : rq \in DOMAIN W3.wq},
                                                 !.blocked = W3.blocked, !.w2s = @ \o W3.msgs, !.remaining = W3.rem,
                                                 !.stopped = @ \/ ends],
                         !.wkq[w] = W3.wq, !.fut = W3.fut, !.armed = W3.armed, !.starts = W3.starts, !.stops = W3.stops]
         A2 == FoldSeqLeft(StepW, [wk |-> wk, wkq |-> wkq, fut |-> fut, armed |-> armedFail, starts |-> <<>>, stops |-> <<>>], SortedIds(DOMAIN wk))
     IN /\ now' = now2
        /\ wk' = A2.wk /\ wkq' = A2.wkq /\ fut' = A2.fut /\ armedFail' = A2.armed
        /\ wstarts' = FoldSeqLeft(LAMBDA ws, x : [ws EXCEPT ![x.t] = Append(@, [w |-> x.w, inst |-> x.inst, ok |-> x.ok, now |-> now2, pf |-> x.pf])], wstarts, A2.starts)
        /\ tstops' = tstops \cup SeqSet(A2.stops)
  /\ budget' = [budget EXCEPT !.ticks = @ - 1]
  /\ UNCHANGED <<coreVars, job, streams, classes, tinfo, hist, ranOk, cancelAck, wCancel, gaveBack, nCompleted, mustCrash, mayCrash, exceeded,
                  panic, submitted, drift, journal, late>>

\* the server reads the stop announcement of a worker: the worker is removed (not a failure)
SrvRecvStop(w) ==
  /\ panic = "" /\ w \in DOMAIN wk /\ wk[w].w2s # <<>> /\ Head(wk[w].w2s).k = "WStop"
  /\ \E ord \in SetToSeqs(RunningOn(CoreRec, w)) :
     LET r == OnRemoveWorker(CoreRec, JobRec, w, FALSE, ord)
         C == r[1]
     IN /\ Commit(C, r[2])
        /\ wk' = [x \in DOMAIN wk \ {w} |-> [wk[x] EXCEPT !.s2w = @ \o C.out[x]]]
        /\ wkq' = Without(wkq, w)
        /\ fut' = {f \in fut : f.w # w}
        /\ wCancel' = {p \in wCancel : p[1] # w} /\ gaveBack' = {p \in gaveBack : p[1] # w}
  /\ UNCHANGED <<tinfo, submitted, cancelAck, wstarts, ranOk, tstops, armedFail, budget, mustCrash, mayCrash>> /\ unchangedStatic

-----------------------------------------------------------------------------
(* A new worker connects (reactor::on_new_worker): it is added to the worker map and scheduling is requested.  The        *)
(* NewWorker broadcast to the other workers carries nothing the model keeps.                                             *)
ConnectWorker ==
  /\ panic = "" /\ budget.connects > 0
  /\ LET w == LateSeq[Len(LateSeq) - budget.connects + 1] IN
     /\ srv' = (w :> FreshSrv(w)) @@ srv
     /\ wk' = (w :> FreshWk(w)) @@ wk
     /\ wkq' = (w :> [rq \in 0..(Len(Classes) - 1) |-> <<>>]) @@ wkq
  /\ needSched' = TRUE
  /\ budget' = [budget EXCEPT !.connects = @ - 1]
  /\ UNCHANGED <<task, queue, redirect, fut, job, tinfo, hist, wstarts, ranOk, tstops, cancelAck, wCancel, gaveBack, nCompleted, mustCrash, mayCrash,
                 exceeded, panic, submitted, armedFail, drift, journal, late>> /\ unchangedStatic

-----------------------------------------------------------------------------
(* Worker loss (connection closed; fail = the loss counts as a crash of the tasks running there) *)
LoseWorker(w, fail) ==
  /\ panic = "" /\ w \in DOMAIN srv /\ budget.losses > 0
  /\ \E ord \in SetToSeqs(RunningOn(CoreRec, w)) :
     LET r == OnRemoveWorker(CoreRec, JobRec, w, fail, ord)
         C == r[1]
     IN /\ Commit(C, r[2])
        /\ wk' = [x \in DOMAIN wk \ {w} |-> [wk[x] EXCEPT !.s2w = @ \o C.out[x]]]
        /\ wkq' = Without(wkq, w)
        /\ fut' = {f \in fut : f.w # w}
        /\ mustCrash' = [t \in DOMAIN mustCrash |->
              mustCrash[t] + (IF fail /\ ~HasTerminal(t) /\ hist[t] # <<>> /\ Last(hist[t]).k = "Started" /\ Last(hist[t]).ws[1] = w THEN 1 ELSE 0)]
        /\ mayCrash' = [t \in DOMAIN mayCrash |->
              mayCrash[t] + (IF fail /\ ((hist[t] # <<>> /\ Last(hist[t]).k = "Started" /\ w \in SeqSet(Last(hist[t]).ws)) \/ t \in RunningTids(w)
                                          \/ (t \in DOMAIN task /\ task[t].st = "M" /\ w \in SeqSet(task[t].ws))) THEN 1 ELSE 0)]
        /\ wCancel' = {p \in wCancel : p[1] # w} /\ gaveBack' = {p \in gaveBack : p[1] # w}
  /\ budget' = [budget EXCEPT !.losses = @ - 1]
  /\ UNCHANGED <<tinfo, submitted, cancelAck, wstarts, ranOk, tstops, armedFail>> /\ unchangedStatic

-----------------------------------------------------------------------------
Next ==
  \/ \E i \in DOMAIN Menu : ClientSubmit(i)
  \/ \E j \in DOMAIN job : ClientCancel(j)
  \/ \E j \in DOMAIN OpenJobs : ClientOpen(j) \/ ClientClose(j)
  \/ Schedule
  \/ \E w \in DOMAIN wk : SrvRecv(w) \/ WkRecv(w) \/ SrvRecvStop(w)
  \/ \E f \in fut : TaskExit(f, TRUE) \/ TaskExit(f, FALSE)
  \/ \E t \in DOMAIN task : ArmLaunchFail(t)
  \/ \E w \in DOMAIN srv : LoseWorker(w, TRUE) \/ LoseWorker(w, FALSE)
  \/ TimeTick
  \/ ConnectWorker
  \/ \E w \in DOMAIN wk : \E x \in Dying(w) : TaskDie(w, x)

Spec == Init /\ [][Next]_mvars

-----------------------------------------------------------------------------
(* C05 on the model.  The strict formula C05_NoOverbook has a known, transient exception in the real code (known finding  *)
(* handover-after-cancel-release): the reservation of a running task is released when it is canceled, the worker then *)
(* hands its resources to a pre-sent task and the server books them again.  The model reproduces it; every OTHER way  *)
(* of overbooking is excluded by this invariant (and the strict one is checked with proactive filling off).          *)
Overbooked(w) ==
  \E r \in 1..NRes(w) :
     SumOver(srv[w].assigned \cap DOMAIN task, LAMBDA t : ReqAmount(task[t].rq, HeldVariant(t, w), r, w)) > srv[w].total[r]
C05_NoOverbookModHandover ==
  \A w \in Workers : srv[w].kind = "sn" /\ Overbooked(w) => w \in drift
\* the worker's own books are never affected: what RUNS on a worker always fits (C04_RunningExclusive)

(* Restart from the journal (server/restore.rs) as a function of a journal prefix, and what a restart must preserve.     *)
(* Every state is a crash point; the journal may have lost up to MaxCut records at its tail (also in the middle of the *)
(* records one reactor call emitted).                                                                                 *)
MaxCut == 3
RTask0 == [st |-> "Waiting", inst |-> -1, crash |-> 0, ws |-> <<>>]
RestoreStep(R, ev) ==
  IF R.pn # "" THEN R
  ELSE CASE ev.k = "Submit" -> [R EXCEPT !.jobs = (ev.j :> [tasks |-> <<>>, menu |-> ev.i]) @@ @]
         [] ev.k = "JobCompleted" -> [R EXCEPT !.jobs = Without(@, ev.j)]
         [] ev.k = "TaskStarted" ->
              LET j == JobOf(ev.t) IN
              IF j \notin DOMAIN R.jobs THEN R
              ELSE LET old == IF ev.t \in DOMAIN R.jobs[j].tasks THEN R.jobs[j].tasks[ev.t] ELSE RTask0
                   IN [R EXCEPT !.jobs[j].tasks = (ev.t :> [st |-> "Running", inst |-> ev.inst, crash |-> old.crash, ws |-> ev.ws]) @@ @]
         [] ev.k = "TaskFinished" ->
              LET j == JobOf(ev.t) IN
              IF j \notin DOMAIN R.jobs THEN R
              ELSE IF ev.t \notin DOMAIN R.jobs[j].tasks THEN [R EXCEPT !.pn = "restore_finished_unwrap"]
              ELSE IF R.jobs[j].tasks[ev.t].st # "Running" THEN [R EXCEPT !.pn = "restore_finished_state"]
              ELSE [R EXCEPT !.jobs[j].tasks[ev.t].st = "Finished"]
         [] ev.k = "TaskFailed" ->
              LET j == JobOf(ev.t) IN
              IF j \notin DOMAIN R.jobs THEN R
              ELSE LET old == IF ev.t \in DOMAIN R.jobs[j].tasks THEN R.jobs[j].tasks[ev.t] ELSE RTask0
                   IN IF old.st \notin {"Waiting", "Running"} THEN [R EXCEPT !.pn = "restore_failed_state"]
                      ELSE [R EXCEPT !.jobs[j].tasks = (ev.t :> [old EXCEPT !.st = "Failed"]) @@ @]
         [] ev.k \in {"TasksCanceled", "TasksAborted"} ->
              LET s == IF ev.k = "TasksCanceled" THEN "Canceled" ELSE "Aborted" IN
              FoldSeqLeft(LAMBDA RR, t :
                            LET j == JobOf(t) IN
                            IF j \notin DOMAIN RR.jobs THEN RR
                            ELSE LET old == IF t \in DOMAIN RR.jobs[j].tasks THEN RR.jobs[j].tasks[t] ELSE RTask0
                                 IN [RR EXCEPT !.jobs[j].tasks = (t :> [old EXCEPT !.st = s]) @@ @],
                          R, ev.ts)
         [] ev.k = "WorkerLost" ->
              IF ~ev.fail THEN R
              ELSE [R EXCEPT !.jobs = [j \in DOMAIN R.jobs |->
                      [R.jobs[j] EXCEPT !.tasks = [t \in DOMAIN R.jobs[j].tasks |->
                          LET x == R.jobs[j].tasks[t] IN
                          IF x.st = "Running" /\ ev.w \in SeqSet(x.ws) THEN [x EXCEPT !.crash = @ + 1] ELSE x]]]]
         [] ev.k = "JobCancel" -> IF ev.j \notin DOMAIN R.jobs THEN [R EXCEPT !.pn = "restore_jobcancel_unwrap"] ELSE R
         [] OTHER -> R
Restore(jr) == FoldSeqLeft(RestoreStep, [jobs |-> <<>>, pn |-> ""], jr)
\* the restored view of task t of a restored job (tasks without records are waiting)
RView(R, t) == LET j == JobOf(t) IN IF t \in DOMAIN R.jobs[j].tasks THEN R.jobs[j].tasks[t] ELSE RTask0
RTasksOf(R, j) == {j * 1000 + Menu[R.jobs[j].menu].tasks[i].id : i \in DOMAIN Menu[R.jobs[j].menu].tasks}
RPending(R) == {t \in UNION {RTasksOf(R, j) : j \in DOMAIN R.jobs} : RView(R, t).st \in {"Waiting", "Running"}}
JPrefixes == {SubSeq(journal, 1, n) : n \in (IF Len(journal) > MaxCut THEN Len(journal) - MaxCut ELSE 0)..Len(journal)}

\* C10: a restart succeeds at every crash point
J_RestoreSucceeds == \A p \in JPrefixes : Restore(p).pn = ""
\* C10: with the whole journal on disk the restart reproduces the outcomes and forgets exactly the completed jobs
J_OutcomesRestored ==
  LET R == Restore(journal) IN
  /\ DOMAIN R.jobs = {j \in DOMAIN job : ~job[j].completed}
  /\ \A j \in DOMAIN R.jobs : \A t \in RTasksOf(R, j) :
        IF Out(t) # "none" THEN RView(R, t).st = Out(t) ELSE RView(R, t).st \in {"Waiting", "Running"}
\* C06: the instance given to a pending task after the restart is larger than every execution the journal knows
J_InstFresh ==
  \A p \in JPrefixes : LET R == Restore(p) IN
     \A t \in RPending(R) : \A i \in DOMAIN p : p[i].k = "TaskStarted" /\ p[i].t = t => RView(R, t).inst + 1 > p[i].inst
\* C07: the crash count survives the restart (whole journal: equal to the live counter)
J_CrashKept ==
  LET R == Restore(journal) IN \A t \in RPending(R) : t \in DOMAIN task => RView(R, t).crash = task[t].crash
\* C03: at no crash point a task is restored as pending although a dependency is restored failed / canceled / aborted
J_DepsConsistent ==
  \A p \in JPrefixes : LET R == Restore(p) IN
     \A t \in RPending(R) : \A d \in tinfo[t].deps : RView(R, d).st \notin {"Failed", "Canceled", "Aborted"}

\* C12: pruning (event/journal/prune.rs) with the live jobs of the moment does not change what a restart restores
LiveJobs == {j \in DOMAIN job : ~(~job[j].open /\ NonTerminal(job[j]) = {})}     \* !job.is_terminated()
PruneOf(jr, live) ==
  LET keep(ev) ==
        CASE ev.k \in {"Submit", "JobCompleted", "JobCancel"} -> ev.j \in live
          [] ev.k \in {"TaskStarted", "TaskFinished", "TaskFailed"} -> JobOf(ev.t) \in live
          [] ev.k \in {"TasksCanceled", "TasksAborted"} -> \E i \in DOMAIN ev.ts : JobOf(ev.ts[i]) \in live
          [] OTHER -> TRUE
      trim(ev) == IF ev.k \in {"TasksCanceled", "TasksAborted"} THEN [ev EXCEPT !.ts = SelectSeq(@, LAMBDA t : JobOf(t) \in live)] ELSE ev
      kept == SelectSeq(jr, keep)
  IN [i \in DOMAIN kept |-> trim(kept[i])]
J_PruneKeepsRestore ==
  LET R1 == Restore(journal)  R2 == Restore(PruneOf(journal, LiveJobs)) IN R2.pn = "" /\ R2.jobs = R1.jobs
\* ... and pruning twice is pruning once
J_PruneIdempotent == PruneOf(PruneOf(journal, LiveJobs), LiveJobs) = PruneOf(journal, LiveJobs)

(* C03 on the model.  Known finding dependent-submitted-after-dep-ended: a later submit into an open job may name a     *)
(* dependency that already ended failed / canceled / aborted; on_new_tasks drops it silently and the dependent runs.   *)
(* The model reproduces it (monitor `late`); every other way of starting a dependent of a dead task is excluded.      *)
C03_NeverStartedAfterFailedDepModLate ==
  \A t \in AllTasks : Out(t) \in {"Failed", "Canceled"} =>
     \A c \in TransConsumers(t) \ late : \A i \in DOMAIN wstarts[c] : ~wstarts[c][i].ok
C03_PropagateAtRestModLate ==
  Quiescent => \A t \in AllTasks : Out(t) \in {"Failed", "Canceled"} =>
     \A c \in TransConsumers(t) \ late : Out(c) \in {"Aborted", "Canceled"}

(* step properties *)
\* C03: an execution starts only after every dependency has finished
C03_NoEarlyStartStep ==
  \A t \in DOMAIN wstarts \ late : Len(wstarts'[t]) > Len(wstarts[t]) /\ Last(wstarts'[t]).ok =>
     \A d \in tinfo[t].deps : d \in DOMAIN hist /\ Out(d) = "Finished"
\* C08: a worker that has processed the cancel of a task never starts it afterwards (also not from its backlog)
C08_NoStartAfterCancelSeenStep ==
  \A p \in wCancel : p[2] \in DOMAIN wstarts =>
     \A i \in (Len(wstarts[p[2]]) + 1)..Len(wstarts'[p[2]]) : wstarts'[p[2]][i].w # p[1]
\* C06: a worker that has confirmed giving a task back never starts it afterwards (unless it is sent again)
C06_NoStartAfterGiveBackStep ==
  \A p \in gaveBack \cap gaveBack' : p[2] \in DOMAIN wstarts =>
     \A i \in (Len(wstarts[p[2]]) + 1)..Len(wstarts'[p[2]]) : wstarts'[p[2]][i].w # p[1]
\* C06: the server reports only executions that exist (the reported instance may be larger than the one the worker was
\* given: a redirect target lost while the task starts from the backlog of the old worker bumps it without a new execution)
C06_StartedIsRealStep ==
  \A t \in DOMAIN hist : Len(hist'[t]) > Len(hist[t]) =>
     \A i \in (Len(hist[t]) + 1)..Len(hist'[t]) : hist'[t][i].k = "Started" =>
        \E k \in DOMAIN wstarts[t] : wstarts[t][k].ok /\ wstarts[t][k].inst <= hist'[t][i].inst /\ wstarts[t][k].w = hist'[t][i].ws[1]
StepProps == [][C03_NoEarlyStartStep /\ C08_NoStartAfterCancelSeenStep /\ C06_NoStartAfterGiveBackStep /\ C06_StartedIsRealStep]_mvars
=============================================================================
