SPECIFICATION Spec
INVARIANT Inv
INVARIANT Report
CHECK_DEADLOCK FALSE
