---------------------------- MODULE MC_AutoAlloc ----------------------------
(***************************************************************************)
(* The allocation queue of module AutoAlloc as a state machine, checked    *)
(* exhaustively for small constants: one queue, the scheduler's demand as  *)
(* an arbitrary input of every tick, submissions that succeed or fail,     *)
(* status reports of the batch system in any order (including wrong and    *)
(* stale ones), worker connect / loss notifications (including repeated    *)
(* and unknown ones), pause / resume by the user, virtual time.            *)
(* Every transition uses the FUNCTIONS of AutoAlloc (Permit, OnConnect,    *)
(* OnLost, OnStatus, LimAfter) that AutoAllocTrace compares with the real  *)
(* code step by step.                                                      *)
(***************************************************************************)
EXTENDS AutoAlloc

CONSTANTS Backlog, MaxPer, MaxW, MaxAllocs, MaxTime, Workers, MaxDemand, MaxMn

VARIABLES q,        \* the queue record (as in AutoAlloc)
          now,      \* virtual time
          nextId,   \* next allocation id
          lost,     \* [alloc -> set of workers recorded as lost while it ran]
          started,  \* [alloc -> number of AllocationStarted events]
          finished, \* [alloc -> number of AllocationFinished events]
          act       \* label of the last step
vars == <<q, now, nextId, lost, started, finished, act>>

DelaysVal == <<0, 1, 2>>

Lim0 == [level |-> 0, subFails |-> 0, allocFails |-> 0, attempted |-> FALSE, last |-> 0]
Init ==
  /\ q = [active |-> TRUE, backlog |-> Backlog, maxPer |-> MaxPer, maxW |-> MaxW, allocs |-> <<>>, lim |-> Lim0]
  /\ now = 0 /\ nextId = 1 /\ lost = <<>> /\ started = <<>> /\ finished = <<>> /\ act = "Init"

Get(f, a, d) == IF a \in DOMAIN f THEN f[a] ELSE d
Put(f, a, v) == [x \in DOMAIN f \cup {a} |-> IF x = a THEN v ELSE f[x]]

\* try_pause_queue
Paused(qq) == IF qq.active /\ OverLimit(qq.lim) THEN [qq EXCEPT !.active = FALSE] ELSE qq

\* queue_try_submit with the results of the individual submissions (Seq of BOOLEAN, as long as the permit)
RECURSIVE SubmitAll(_, _, _, _)
SubmitAll(qq, id, permit, results) ==
  IF permit = <<>> THEN <<qq, id>>
  ELSE IF Head(results) THEN
         LET x == [st |-> "Queued", target |-> Head(permit), connected |-> {}, ndisc |-> 0, errs |-> 0]
             l2 == [qq.lim EXCEPT !.subFails = 0, !.level = IF qq.lim.allocFails = 0 THEN 0 ELSE @]
         IN SubmitAll([qq EXCEPT !.allocs = Put(@, id, x), !.lim = l2], id + 1, Tail(permit), Tail(results))
       ELSE <<[qq EXCEPT !.lim = [@ EXCEPT !.subFails = @ + 1, !.level = IncLevel(qq.lim)]], id>>   \* the rest is abandoned

Tick(d, results) ==
  LET q1 == Paused(q) IN
  /\ nextId <= MaxAllocs
  /\ IF ~q1.active \/ ~HasSpace(q1) THEN q' = q1 /\ UNCHANGED <<nextId>>
     ELSE LET order == SetToSortSeq(QueuedOf(q1), LAMBDA a, b : a < b)
              permit == Permit(q1, d, order)
          IN IF permit = <<>> \/ ~BackoffElapsed(q1.lim, now) THEN q' = q1 /\ UNCHANGED <<nextId>>
             ELSE /\ Len(results) = Len(permit)
                  /\ LET r == SubmitAll([q1 EXCEPT !.lim = [@ EXCEPT !.attempted = TRUE, !.last = now]], nextId, permit, results)
                     IN q' = Paused(r[1]) /\ nextId' = r[2]
  /\ UNCHANGED <<now, lost, started, finished>>

Apply(a, r) == \* r = <<allocation', outcome>>
  /\ q' = [q EXCEPT !.allocs[a] = r[1], !.lim = LimAfter(@, r[2])]
  /\ started' = IF q.allocs[a].st = "Queued" /\ r[1].st = "Running"
                THEN Put(started, a, Get(started, a, 0) + 1) ELSE started
  /\ finished' = IF Rank(q.allocs[a].st) < 2 /\ Rank(r[1].st) = 2 THEN Put(finished, a, Get(finished, a, 0) + 1) ELSE finished

Status(a, s) ==
  /\ a \in DOMAIN q.allocs
  /\ Apply(a, OnStatus(q.allocs[a], s))
  /\ UNCHANGED <<now, nextId, lost>>

Connect(a, w) ==
  /\ a \in DOMAIN q.allocs
  /\ Apply(a, OnConnect(q.allocs[a], w, Get(lost, a, {})))
  /\ UNCHANGED <<now, nextId, lost>>

Lose(a, w, crashed) ==
  /\ a \in DOMAIN q.allocs
  /\ Apply(a, OnLost(q.allocs[a], w, Get(lost, a, {}), crashed))
  /\ lost' = IF q.allocs[a].st = "Running" THEN Put(lost, a, Get(lost, a, {}) \cup {w}) ELSE lost
  /\ UNCHANGED <<now, nextId>>

Pause == q.active /\ q' = [q EXCEPT !.active = FALSE] /\ UNCHANGED <<now, nextId, lost, started, finished>>
\* resume forgets the failure counters (repaired defect: it used to keep them and the next tick paused the queue again)
Resume ==
  /\ ~q.active
  /\ q' = [q EXCEPT !.active = TRUE, !.lim = [@ EXCEPT !.subFails = 0, !.allocFails = 0]]
  /\ UNCHANGED <<now, nextId, lost, started, finished>>

Time == now < MaxTime /\ now' = now + 1 /\ UNCHANGED <<q, nextId, lost, started, finished>>

\* single-node workers wanted, and multi-node allocations of MaxPer workers each (a multi-node task is only counted for a
\* queue whose allocations are large enough, so mn_per <= maxPer)
Demands == [sn : 0..MaxDemand, mn_allocs : {0}, mn_per : {0}] \cup [sn : 0..1, mn_allocs : 1..MaxMn, mn_per : {MaxPer}]
Next ==
  \/ \E d \in Demands : \E n \in 0..Backlog : \E results \in [1..n -> BOOLEAN] : Tick(d, results) /\ act' = "Tick"
  \/ \E a \in DOMAIN q.allocs : \E s \in {"queued", "running", "finished", "failed", "error"} : Status(a, s) /\ act' = "Status"
  \/ \E a \in DOMAIN q.allocs : \E w \in Workers : (Connect(a, w) \/ Lose(a, w, TRUE) \/ Lose(a, w, FALSE)) /\ act' = "Worker"
  \/ (Pause \/ Time) /\ act' = "User"
  \/ Resume /\ act' = "Resume"

Spec == Init /\ [][Next]_vars

-----------------------------------------------------------------------------
(* C17 *)
QQ == <<q>>     \* the property formulas of AutoAlloc take a function of queues
C17_BacklogBound == BacklogBound(QQ)
C17_WorkerBound == WorkerBound(QQ)
C17_AllocSize == AllocSize(QQ)
C17_BackoffCoversFailures == BackoffCoversFailures(QQ)
\* a queue over its failure limits is never left active by a tick
\* no submission while paused / over the limit / before the back-off elapsed
C17_SubmitOnlyWhenAllowed ==
  [][nextId' # nextId => q.active /\ ~OverLimit(q.lim) /\ BackoffElapsed(q.lim, now)]_vars
\* a resumed queue is not paused again by the mere passing of a tick (the repaired defect): resuming leaves the queue below
\* its failure limits, and a tick that attempts no submission never pauses a queue that is below them
C17_ResumeHasEffect ==
  [][/\ (act' = "Resume" => q'.active /\ ~OverLimit(q'.lim))
     /\ (act' = "Tick" /\ q.active /\ ~OverLimit(q.lim) /\ q'.lim = q.lim => q'.active)]_vars

(* C18 *)
C18_RunningShape == RunningShape(QQ)
C18_FinishedShape == FinishedShape(QQ)
C18_Monotone ==
  [][\A a \in DOMAIN q.allocs : a \in DOMAIN q'.allocs /\ Rank(q'.allocs[a].st) >= Rank(q.allocs[a].st)
        /\ (Rank(q.allocs[a].st) = 2 => q'.allocs[a] = q.allocs[a]) /\ q'.allocs[a].target = q.allocs[a].target]_vars
C18_StartEndOnce ==
  \A a \in DOMAIN q.allocs :
     /\ Get(started, a, 0) <= 1 /\ Get(finished, a, 0) <= 1
     /\ (Rank(q.allocs[a].st) = 2) <=> Get(finished, a, 0) = 1
C18_ConnectedExact ==
  \A a \in DOMAIN q.allocs : q.allocs[a].st = "Running" =>
     q.allocs[a].connected \cap Get(lost, a, {}) = {} /\ q.allocs[a].ndisc = Cardinality(Get(lost, a, {}))
=============================================================================
