SPECIFICATION Spec
CONSTANTS
  Workers = {1}
  Tasks = {1, 2}
  MaxInst = 1
  MaxChunks = 1
  MaxCrashes = 1
  Chans = {0, 1}
  FlushOnlyIfIdle = FALSE
INVARIANTS TypeOK C19_ExactBytesInOrder C19_OnlyLastRun C19_MarkedFinished C19_SupersededReported AUX_FileOrderIrrelevant
CHECK_DEADLOCK FALSE
