------------------------- MODULE JournalThreadTrace -------------------------
(***************************************************************************)
(* Binding of JournalModel to the REAL journal thread.  `hqv journal`      *)
(* drives start_event_streaming / streaming_process with the events of a   *)
(* real run and a seeded mix of requests; the engine flattens the log, one *)
(* step per line:                                                          *)
(*   Reset | E(id, job) | F(file) | R(reply) | P(live, file) |             *)
(*   Snap(file, torn) | Restart(file) | End(file)                          *)
(* `file` / `reply` are the records the real JournalReader finds, as       *)
(* indices of the emitted events (-1 = a record re-written by a prune).    *)
(* At the moments where the thread has answered a request everything       *)
(* before the request has been processed, so the model is advanced by      *)
(* draining its channel; a snapshot is taken at an arbitrary moment and    *)
(* must be explainable as file \o (a prefix of what is still on the way).  *)
(*                                                                         *)
(* Verdicts (property formulas evaluated on what the real code shows):     *)
(*   C10_DurableIsPrefix, C10_AckedIsDurable, C10_ReplayComplete,          *)
(*   C10_TornTailCutOnRestart, C12_PruneKeepsLiveRecords,                  *)
(*   C12_PrunedFileAppendable                                              *)
(* Diagnostics: AUX_Conf_JournalThread:<step>.                             *)
(***************************************************************************)
EXTENDS JournalModel, Json, IOUtils

VARIABLES l, viol, lost, run

Lines == ndJsonDeserialize(IOEnv.TRACE)
tvars == <<vars, l, viol, lost, run>>

IdSeq(s) == [i \in DOMAIN s |-> s[i].id]
Known(obs) == SelectSeq(obs, LAMBDA x : x >= 0)           \* the re-written records carry no identity
Pending == buf \o ChanEvents
All == file \o Pending
V(n, e) == [p |-> n, run |-> run, k |-> e.k]

TraceInit == Init /\ l = 1 /\ viol = {} /\ lost = FALSE /\ run = -1

Keep == UNCHANGED <<emitted, chan, buf, file, torn, tmp, pc, cur, acked, replies, removed, before, nreq, crashes, alive>>

\* everything sent so far has been processed and flushed
Drained == /\ file' = All /\ buf' = <<>> /\ chan' = <<>> /\ torn' = FALSE

Step(e) ==
  IF e.a = "Reset" THEN
     /\ emitted' = <<>> /\ chan' = <<>> /\ buf' = <<>> /\ file' = <<>> /\ torn' = FALSE /\ tmp' = <<>> /\ pc' = "idle" /\ cur' = <<>>
     /\ acked' = {} /\ replies' = <<>> /\ removed' = {} /\ before' = <<>> /\ nreq' = 0 /\ crashes' = 0 /\ alive' = TRUE
     /\ lost' = FALSE /\ run' = e.run /\ viol' = viol
  ELSE IF lost THEN Keep /\ UNCHANGED <<viol, lost, run>>
  ELSE IF e.a = "E" THEN
     LET ev == [id |-> e.id, job |-> e.job] IN
     /\ emitted' = Append(emitted, ev) /\ chan' = Append(chan, [k |-> "E", e |-> ev])
     /\ UNCHANGED <<buf, file, torn, tmp, pc, cur, acked, replies, removed, before, nreq, crashes, alive, viol, lost, run>>
  ELSE IF e.a \in {"F", "End"} THEN
     \* flush answered (or the thread ended in an orderly way): the file holds everything emitted so far, in order
     LET ok == Known(e.file) = IdSeq(All) /\ ~e.torn IN
     /\ Drained
     /\ nreq' = nreq + 1 /\ acked' = acked \cup {nreq + 1} /\ before' = (nreq + 1 :> Ids(emitted)) @@ before
     /\ viol' = viol \cup (IF Ids(emitted) \ removed \subseteq {e.file[i] : i \in DOMAIN e.file} THEN {} ELSE {V("C10_AckedIsDurable", e)})
                     \cup (IF IsPrefix(Known(e.file), IdSeq(Logical)) THEN {} ELSE {V("C10_DurableIsPrefix", e)})
                     \cup (IF ok THEN {} ELSE {V("AUX_Conf_JournalThread:" \o e.a, e)})
     /\ lost' = ~ok
     /\ UNCHANGED <<emitted, tmp, pc, cur, replies, removed, crashes, alive, run>>
  ELSE IF e.a = "R" THEN
     LET ok == Known(e.reply) = IdSeq(All) IN
     /\ Drained
     /\ nreq' = nreq + 1 /\ acked' = acked \cup {nreq + 1} /\ before' = (nreq + 1 :> Ids(emitted)) @@ before
     /\ viol' = viol \cup (IF Known(e.reply) = IdSeq(Logical) THEN {} ELSE {V("C10_ReplayComplete", e)})
                     \cup (IF ok THEN {} ELSE {V("AUX_Conf_JournalThread:R", e)})
     /\ lost' = ~ok
     /\ UNCHANGED <<emitted, tmp, pc, cur, replies, removed, crashes, alive, run>>
  ELSE IF e.a = "P" THEN
     \* prune answered: flushed first, then replaced by a file that keeps (at least) every record of a live job
     LET kept == {e.file[i] : i \in DOMAIN e.file}
         liveJobs == {e.live[i] : i \in DOMAIN e.live}
         newFile == SelectSeq(All, LAMBDA x : x.id \in kept)
         ok == Known(e.file) = IdSeq(newFile) /\ ~e.torn /\ e.ok IN
     /\ file' = newFile /\ buf' = <<>> /\ chan' = <<>> /\ torn' = FALSE
     /\ removed' = removed \cup (Ids(All) \ kept)
     /\ nreq' = nreq + 1 /\ acked' = acked \cup {nreq + 1} /\ before' = (nreq + 1 :> Ids(emitted)) @@ before
     /\ viol' = viol \cup (IF \A i \in DOMAIN All : (All[i].job > 0 /\ All[i].job \in liveJobs) => All[i].id \in kept
                           THEN {} ELSE {V("C12_PruneKeepsLiveRecords", e), V("C10_AckedIsDurable", e)})
                     \* the pruned file is a part of the journal: its records are records of the journal, once each, in their order
                     \* (nothing of an older, interrupted prune is mixed in)
                     \cup (IF Known(e.file) = IdSeq(newFile) /\ ~e.torn THEN {} ELSE {V("C12_PrunedFileIsPartOfJournal", e)})
                     \cup (IF ok THEN {} ELSE {V("AUX_Conf_JournalThread:P", e)})
     /\ lost' = ~ok
     /\ UNCHANGED <<emitted, tmp, pc, cur, replies, crashes, alive, run>>
  ELSE IF e.a = "Snap" THEN
     \* a crash now would leave this: whole records, a prefix of the history, nothing acknowledged missing
     LET m == Len(e.file) - Len(file)
         ok == m >= 0 /\ m <= Len(Pending) /\ Known(e.file) = Known(IdSeq(file \o SubSeq(Pending, 1, m))) IN
     /\ viol' = viol \cup (IF IsPrefix(Known(e.file), IdSeq(Logical)) THEN {} ELSE {V("C10_DurableIsPrefix", e)})
                     \cup (IF \A r \in acked : \A x \in before[r] : x \in removed \/ x \in {e.file[i] : i \in DOMAIN e.file}
                           THEN {} ELSE {V("C10_AckedIsDurable", e)})
                     \cup (IF ok THEN {} ELSE {V("AUX_Conf_JournalThread:Snap", e)})
     /\ Keep /\ lost' = ~ok /\ UNCHANGED run
  ELSE IF e.a = "Restart" THEN
     \* the previous line was the snapshot the server is started with: the torn tail is cut, everything whole is still there
     LET snapshot == Lines[l - 1].file
         ok == e.ok /\ e.file = snapshot /\ ~e.torn IN
     /\ file' = SelectSeq(All, LAMBDA x : x.id \in {snapshot[i] : i \in DOMAIN snapshot})
     /\ emitted' = file' /\ buf' = <<>> /\ chan' = <<>> /\ torn' = FALSE /\ crashes' = crashes + 1
     /\ viol' = viol \cup (IF ok THEN {} ELSE {V("C10_TornTailCutOnRestart", e)})
     /\ lost' = ~ok
     /\ UNCHANGED <<tmp, pc, cur, acked, replies, removed, before, nreq, alive, run>>
  ELSE Keep /\ UNCHANGED <<viol, lost, run>>

TraceNext == l <= Len(Lines) /\ l' = l + 1 /\ Step(Lines[l])
TraceSpec == TraceInit /\ [][TraceNext]_tvars
TraceAccepted ==
  LET d == TLCGet("stats").diameter IN
  /\ PrintT(<<"VERDICT", ToJson([lines |-> Len(Lines), diameter |-> d])>>)
  /\ d - 1 = Len(Lines)
AtEnd == l = Len(Lines) + 1 => PrintT(<<"VIOL", ToJson(viol)>>)
=============================================================================
