--------------------------- MODULE JournalTrace ---------------------------
(***************************************************************************)
(* Validation of the REAL journal code (JournalWriter/Reader,              *)
(* StateRestorer, prune_journal) against module Journal.                   *)
(*                                                                         *)
(* One ndjson line = one journal produced by a real execution of the       *)
(* cluster simulation, together with the outcome of the real restore at    *)
(* every record boundary ("cuts"), inside torn records ("torn") and around *)
(* every prune ("prunes").  For every line TLC evaluates the formulas      *)
(* below; the names of violated formulas are accumulated in `viol`.        *)
(***************************************************************************)
EXTENDS Journal, Json, IOUtils

VARIABLES l, viol

Rec == ndJsonDeserialize(IOEnv.TRACE)

\* ---- projections of a real restore outcome
RealJobs(c) == {c.jobs[i].id : i \in DOMAIN c.jobs}
RealJob(c, j) == CHOOSE x \in SSet(c.jobs) : x.id = j
RealTaskMap(x) == [t \in {x.tasks[i].t : i \in DOMAIN x.tasks} |-> (CHOOSE y \in SSet(x.tasks) : y.t = t).s]
RealCore(c) == {c.core[i].id : i \in DOMAIN c.core}
CoreRec(c, t) == CHOOSE x \in SSet(c.core) : x.id = t
CountS(m, s) == Cardinality({t \in DOMAIN m : m[t] = s})

\* ---- formulas over one cut c of journal J (p = durable prefix)
Succeeds(c) == c.ok /\ c.pan = 0 /\ c.add_err = ""
JobsPresent(c, p) == RealJobs(c) = LiveJobs(p)
OpenFlags(c, p) == \A j \in RealJobs(c) \cap LiveJobs(p) : RealJob(c, j).open = IsOpen(p, j)
TaskOutcomes(c, p) ==
  \A j \in RealJobs(c) \cap LiveJobs(p) :
     LET m == RealTaskMap(RealJob(c, j)) IN
       /\ DOMAIN m = TasksOfJob(p, j)
       /\ \A t \in DOMAIN m \cap TasksOfJob(p, j) : m[t] = JobState(p, t)
Counters(c) ==
  \A j \in RealJobs(c) :
     LET x == RealJob(c, j)  m == RealTaskMap(x) IN
       /\ x.n = Cardinality(DOMAIN m)
       /\ x.cnt.running = CountS(m, "Running") /\ x.cnt.finished = CountS(m, "Finished")
       /\ x.cnt.failed = CountS(m, "Failed") /\ x.cnt.canceled = CountS(m, "Canceled")
       /\ x.cnt.aborted = CountS(m, "Aborted")
PendingOnce(c, p) ==
  /\ RealCore(c) = Pending(p)
  /\ Len(c.core) = Cardinality(RealCore(c))
  /\ \A t \in RealCore(c) : CoreRec(c, t).st = "W"
DepsIntact(c, p) ==
  \A t \in RealCore(c) \cap Pending(p) : CoreRec(c, t).nd = Cardinality(RemainingDeps(p, t))
\* C08 "never reported started ... afterwards": a task whose cancel is in the durable prefix is not given to the scheduler again
CanceledStays(c, p) == \A t \in RealCore(c) : Outcome(p, t) # "Canceled"
\* C03 over a restart: no task is pending behind a dependency that ended badly AFTER the task had been submitted (the abort of the
\* dependents is journaled before the failure itself, so that no cut separates them; a task submitted after its dependency
\* had already ended badly is the known finding of the live system and not judged here)
\* ... and a dependent that WAS aborted (its TasksAborted record is in the journal, whether or not it had ever been started) is
\* not handed to the scheduler again by the restart
AbortedStays(c, p) == \A t \in RealCore(c) : Outcome(p, t) # "Aborted"
SubmitIdxOfTask(p, t) ==
  LET S == {i \in SubmitIdx(p, JobOfT(t)) : \E x \in SSet(p[i].tasks) : Tid(JobOfT(t), x.id) = t} IN IF S = {} THEN 0 ELSE Min(S)
NoPendingBehindBadDep(c, p) ==
  \A t \in RealCore(c) \cap Pending(p) : \A d \in DepsOf(p, t) :
     Outcome(p, d) \in {"Failed", "Canceled", "Aborted"} => SubmitIdxOfTask(p, t) > Max(TermIdx(p, d))
InstAfterRestart(c, p) ==
  \A t \in RealCore(c) \cap Pending(p) : CoreRec(c, t).inst > MaxStartedInst(p, t)
CrashSurvives(c, p) ==
  \A t \in RealCore(c) \cap Pending(p) : CoreRec(c, t).crash >= CrashLo(p, t) /\ CoreRec(c, t).crash <= CrashHi(p, t)
QueuesRestored(c, p) == SSet(c.queues) = LiveQueues(p)
FreshJobIds(c, p) == c.jc > MaxOr0(MentionedJobs(p))
\* the core pre-increments: the first worker id issued after the restart is wc + 1
FreshWorkerIds(c, p) == c.wc + 1 > MaxOr0(MentionedWorkers(p))
FreshQueueIds(c, p) == c.qc > MaxOr0(MentionedQueues(p))
UidKept(c, p) == FirstUid(p) # "" => c.uid = FirstUid(p)

CutViol(c, J) ==
  LET p == SubSeq(J, 1, c.k) IN
  IF ~Succeeds(c) THEN {"C10_RestoreSucceeds"}
  ELSE
    (IF JobsPresent(c, p) THEN {} ELSE {"C10_JobsPresent"}) \cup
    (IF OpenFlags(c, p) THEN {} ELSE {"C10_OpenFlags"}) \cup
    (IF TaskOutcomes(c, p) THEN {} ELSE {"C10_TaskOutcomes"}) \cup
    (IF Counters(c) THEN {} ELSE {"C10_Counters"}) \cup
    (IF PendingOnce(c, p) THEN {} ELSE {"C10_PendingOnce"}) \cup
    (IF DepsIntact(c, p) THEN {} ELSE {"C10_DepsIntact", "C03_DepsSurviveRestart"}) \cup
    (IF NoPendingBehindBadDep(c, p) THEN {} ELSE {"C03_NoPendingBehindBadDep"}) \cup
    (IF CanceledStays(c, p) THEN {} ELSE {"C08_CanceledStaysAfterRestart"}) \cup
    (IF AbortedStays(c, p) THEN {} ELSE {"C03_AbortedStaysAfterRestart"}) \cup
    (IF InstAfterRestart(c, p) THEN {} ELSE {"C06_InstAfterRestart"}) \cup
    (IF CrashSurvives(c, p) THEN {} ELSE {"C07_CrashSurvivesRestart"}) \cup
    (IF QueuesRestored(c, p) THEN {} ELSE {"C12_QueuesRestored"}) \cup
    (IF FreshJobIds(c, p) THEN {} ELSE {"C11_FreshJobIds"}) \cup
    (IF FreshWorkerIds(c, p) THEN {} ELSE {"C11_FreshWorkerIds"}) \cup
    (IF FreshQueueIds(c, p) THEN {} ELSE {"C11_FreshQueueIds"}) \cup
    (IF UidKept(c, p) THEN {} ELSE {"C11_UidKept"})

TornViol(t) ==
  (IF t.ok /\ t.pan = 0 THEN {} ELSE {"C10_TornTailAccepted"}) \cup
  (IF ~t.ok \/ (t.same_as_prev /\ t.trunc_ok) THEN {} ELSE {"C10_TornTailIgnored"}) \cup
  (IF ~t.ok \/ t.append_ok THEN {} ELSE {"C10_TornTailAppendable"})

\* what a restart restores, for the comparison unpruned / pruned
ViewOf(c) ==
  [ok |-> c.ok, jobs |-> [j \in RealJobs(c) |-> [open |-> RealJob(c, j).open, tasks |-> RealTaskMap(RealJob(c, j))]],
   core |-> [t \in RealCore(c) |-> [nd |-> CoreRec(c, t).nd, inst |-> CoreRec(c, t).inst, crash |-> CoreRec(c, t).crash]],
   queues |-> SSet(c.queues)]

PruneViol(x) ==
  IF x.prune_failed THEN {"C12_PruneSucceeds"}
  ELSE
    LET lj == SSet(x.live_jobs)  lw == SSet(x.live_workers) IN
    \* if the unpruned journal cannot be restored at all there is nothing to compare with (that is C10's business)
    (IF ~x.before.ok \/ ViewOf(x.after) = ViewOf(x.before) THEN {} ELSE
        (IF ~x.after.ok THEN {"C12_PrunedRestorable"} ELSE
          (IF ViewOf(x.after).jobs # ViewOf(x.before).jobs THEN {"C12_SameJobs"} ELSE {}) \cup
          (IF DOMAIN ViewOf(x.after).core # DOMAIN ViewOf(x.before).core THEN {"C12_SamePending"}
           ELSE (IF \E t \in RealCore(x.after) : CoreRec(x.after, t).nd # CoreRec(x.before, t).nd THEN {"C12_SameDeps"} ELSE {}) \cup
                (IF \E t \in RealCore(x.after) : CoreRec(x.after, t).inst # CoreRec(x.before, t).inst THEN {"C12_SameInstanceIds"} ELSE {}) \cup
                \* (C07: what counts towards the crash limit is not forgotten by a prune either)
                (IF \E t \in RealCore(x.after) : CoreRec(x.after, t).crash # CoreRec(x.before, t).crash THEN {"C12_SameCrashCounts", "C07_CrashSurvivesPrune"} ELSE {})) \cup
          (IF ViewOf(x.after).queues # ViewOf(x.before).queues THEN {"C12_SameQueues"} ELSE {}))) \cup
    (IF MustKeep(x.after_journal, lj, lw) = MustKeep(x.before_journal, lj, lw)
        /\ \A i \in DOMAIN x.after_journal : DerivedFrom(x.after_journal[i], x.before_journal)
     THEN {} ELSE {"C12_OnlyDeadRemoved"}) \cup
    \* the server keeps its identifier over a restart - also over a restart from the pruned journal
    (IF x.before.ok /\ x.after.ok /\ x.before.uid # "" /\ x.after.uid # x.before.uid THEN {"C11_UidKeptAfterPrune"} ELSE {}) \cup
    (IF x.reprune_same THEN {} ELSE {"C12_PruneIdempotent"}) \cup
    (IF x.append_ok THEN {} ELSE {"C12_PrunedAppendable"})

LineViol(e) ==
  UNION {{[p |-> n, run |-> e.run, at |-> e.cuts[i].k, part |-> "cut", loc |-> e.cuts[i].ploc] : n \in CutViol(e.cuts[i], e.journal)} : i \in DOMAIN e.cuts}
  \cup UNION {{[p |-> n, run |-> e.run, at |-> e.torn[i].off, part |-> "torn", loc |-> ""] : n \in TornViol(e.torn[i])} : i \in DOMAIN e.torn}
  \cup UNION {{[p |-> n, run |-> e.run, at |-> i, part |-> "prune", loc |-> ""] : n \in PruneViol(e.prunes[i])} : i \in DOMAIN e.prunes}

TraceInit == l = 1 /\ viol = {}
TraceNext ==
  /\ l <= Len(Rec)
  /\ l' = l + 1
  /\ viol' = viol \cup LineViol(Rec[l])
TraceSpec == TraceInit /\ [][TraceNext]_<<l, viol>>

TraceAccepted ==
  LET d == TLCGet("stats").diameter IN
  /\ PrintT(<<"VERDICT", ToJson([lines |-> Len(Rec), diameter |-> d])>>)
  /\ d - 1 = Len(Rec)
AtEnd == l = Len(Rec) + 1 => PrintT(<<"VIOL", ToJson(viol)>>)
=============================================================================
