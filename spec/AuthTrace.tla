----------------------------- MODULE AuthTrace -----------------------------
(***************************************************************************)
(* Outcomes of REAL handshakes (two `do_authentication` futures over       *)
(* in-memory pipes with an interposed frame-level adversary, `hqv auth`)   *)
(* checked against module Auth: the property formulas are evaluated on the *)
(* real accept/reject decisions, and the real decisions must equal the     *)
(* model's (the model is deterministic, so conformance is exact).          *)
(***************************************************************************)
EXTENDS Auth, Json, IOUtils

VARIABLES l, viol
Rec == ndJsonDeserialize(IOEnv.TRACE)

Msg(e) ==
  IF e.m.kind = "req" THEN [proto |-> e.m.proto, role |-> e.m.role, ch |-> e.m.ch]
  ELSE IF e.m.kind = "resp" THEN ResponseFrom(e.a, e.b, e.m.src)
  ELSE [kind |-> "error"]

LineViol(e) ==
  LET o == Session(e.a, e.b, e.slot, Msg(e))
      und == Session(e.a, e.b, 0, [kind |-> "error"]) IN
  (IF e.acceptA = o.acceptA /\ e.acceptB = o.acceptB THEN {} ELSE {"C20_DecisionAsModel"}) \cup
  (IF e.slot = 0 /\ Matching(e.a, e.b) /\ ~(e.acceptA /\ e.acceptB) THEN {"C20_HonestAccept"} ELSE {}) \cup
  (IF e.slot = 0 /\ ~Matching(e.a, e.b) /\ (e.acceptA \/ e.acceptB) THEN {"C20_MismatchRefuses"} ELSE {}) \cup
  (IF \/ (e.acceptA /\ e.a.key # "none" /\ ~(e.b.key = e.a.key /\ e.b.role = e.a.peer /\ (e.slot = 2 \/ e.b.proto = e.a.proto)))
      \/ (e.acceptB /\ e.b.key # "none" /\ ~(e.a.key = e.b.key /\ e.a.role = e.b.peer /\ (e.slot = 1 \/ e.a.proto = e.b.proto)))
   THEN {"C20_AcceptSound"} ELSE {}) \cup
  (IF \/ (e.slot = 4 /\ e.acceptA /\ e.a.key # "none" /\ Msg(e) # und.respB)
      \/ (e.slot = 3 /\ e.acceptB /\ e.b.key # "none" /\ Msg(e) # und.respA)
   THEN {"C20_NoAcceptOnForeignResponse"} ELSE {})

TraceInit == l = 1 /\ viol = {}
TraceNext ==
  /\ l <= Len(Rec)
  /\ l' = l + 1
  /\ viol' = viol \cup {[p |-> n, line |-> l] : n \in LineViol(Rec[l])}
TraceSpec == TraceInit /\ [][TraceNext]_<<l, viol>>
TraceAccepted ==
  LET d == TLCGet("stats").diameter IN
  /\ PrintT(<<"VERDICT", ToJson([lines |-> Len(Rec), diameter |-> d])>>)
  /\ d - 1 = Len(Rec)
AtEnd == l = Len(Rec) + 1 => PrintT(<<"VIOL", ToJson(viol)>>)
=============================================================================
