SPECIFICATION FairSpec
CONSTANTS
  WorkerCpus <- C_Workers
  LateWorkers <- C_Late
  WorkerGroup <- C_Groups
  WorkerLife <- C_Life
  MaxTicks = 0
  Menu <- C_Menu
  OpenJobs <- C_Open
  Classes <- C_Classes
  MaxLosses = 1
  MaxCancels = 1
  MaxFails = 1
  MaxLaunchFails = 0
  PfReserve = 0
  PfMax = 2
  Eager = TRUE
  Journaling = FALSE
  SlowStop = FALSE
CHECK_DEADLOCK FALSE
PROPERTIES
  L_ComesToRest
  L_RetractResolves
  L_AssignedMoves
