SPECIFICATION FairSpec
CONSTANTS
  WorkerCpus <- B_Workers
  LateWorkers <- B_Late
  WorkerGroup <- B_Groups
  WorkerLife <- B_Life
  MaxTicks = 0
  Menu <- B_Menu
  OpenJobs <- B_Open
  Classes <- B_Classes
  MaxLosses = 1
  MaxCancels = 0
  MaxFails = 1
  MaxLaunchFails = 1
  PfReserve = 0
  PfMax = 1
  Eager = TRUE
  Journaling = FALSE
  SlowStop = FALSE
CHECK_DEADLOCK FALSE
PROPERTIES
  L_ComesToRest
  L_RetractResolves
  L_AssignedMoves
