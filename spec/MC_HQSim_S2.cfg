SPECIFICATION SimSpec
CONSTANTS
  WorkerCpus <- S2_Workers
  LateWorkers <- S2_Late
  WorkerGroup <- S2_Groups
  WorkerLife <- S2_Life
  MaxTicks = 0
  Menu <- S2_Menu
  OpenJobs <- S2_Open
  Classes <- S2_Classes
  MaxLosses = 1
  MaxCancels = 2
  MaxFails = 1
  MaxLaunchFails = 0
  PfReserve = 0
  PfMax = 2
  Eager = FALSE
  Journaling = FALSE
  SlowStop = FALSE
CHECK_DEADLOCK FALSE
INVARIANTS
  NoPanic
  C01_OutcomeOnce
  C01_FinishAfterStart
  C01_FinishedRan
  C01_JobAgrees
  C02_Registry
  C02_ClosedJobsComplete
  C03_NeverStartedAfterFailedDepModLate
  C03_PropagateAtRestModLate
  C03_Unaffected
  C04_RunningExclusive
  C04_RunningExact
  C05_NoOverbookModHandover
  C05_PlacedCapable
  C06_OneExecution
  C06_InstMonotone
  C07_CrashBounds
  C07_FailOnlyAtLimit
  C07_LimitReachedFails
  C08_NoReportAfterAck
  C08_Released
  C08_StopSent
  C08_NoDangling
  C13_CountersMatch
  C13_CompletedOnce
  C14_AbortAllOnExceed
  C14_ExceededStopped
  C14_NoAbortWithin
  C05_MnExclusive
  C05_MnWorkersIdle
