----------------------------- MODULE HQTrace -----------------------------
(***************************************************************************)
(* Trace validation of executions recorded from the real HyperQueue code   *)
(* (harness `hqv cluster`).  Every ndjson line is one environment step of   *)
(* the deterministic cluster simulation; the line carries the action, its  *)
(* arguments, the messages put on the channels, the events that reached    *)
(* the journal/clients, worker-side launches/stops and the projection of   *)
(* the real state after the step.                                          *)
(*                                                                         *)
(* TraceNext consumes one line: the state variables of module HQ are bound *)
(* to the logged projection, the history monitors are advanced from the    *)
(* logged events, and ALL property formulas of HQ are evaluated on the     *)
(* resulting state; the names of the violated ones are accumulated in      *)
(* `viol` together with run and line.  The final POSTCONDITION prints the  *)
(* verdict as one JSON line and requires that every line was consumed.     *)
(***************************************************************************)
EXTENDS HQ, Json, IOUtils

VARIABLES l, run, alive, viol, nstates

Rec == ndJsonDeserialize(IOEnv.TRACE)

tvars == <<vars, l, run, alive, viol, nstates>>

-----------------------------------------------------------------------------
(* JSON projection -> spec variables *)

TaskOf(st) ==
  LET ts == st.srv.tasks
      ids == {ts[i].id : i \in DOMAIN ts}
  IN [t \in ids |-> LET r == CHOOSE r \in SeqSet(ts) : r.id = t
                    IN [st |-> r.st, w |-> r.w, v |-> r.v, nd |-> r.nd, inst |-> r.inst, crash |-> r.crash,
                        ws |-> r.ws, rq |-> r.rq, prio |-> r.prio]]
QueueOf(st) ==
  LET qs == st.srv.queues
  IN [rq \in {qs[i].rq : i \in DOMAIN qs} |->
        LET q == CHOOSE q \in SeqSet(qs) : q.rq = rq
        IN [ready |-> {q.ready[i].t : i \in DOMAIN q.ready}, hasPrefill |-> q.has_prefill,
            pprio |-> q.pprio, pset |-> SeqSet(q.pset)]]
RedirectOf(st) ==
  LET rs == st.srv.redirects
  IN [t \in {rs[i].t : i \in DOMAIN rs} |-> LET r == CHOOSE r \in SeqSet(rs) : r.t = t IN [w |-> r.w, v |-> r.v]]
SrvOf(st) ==
  LET ws == st.srv.workers
  IN [w \in {ws[i].id : i \in DOMAIN ws} |->
        LET r == CHOOSE r \in SeqSet(ws) : r.id = w
        IN [kind |-> r.kind, assigned |-> SeqSet(r.assigned), prefilled |-> SeqSet(r.prefilled), free |-> r.free,
            total |-> r.total, blocked |-> SeqSet(r.blocked), stopping |-> r.stopping, group |-> r.group,
            mn |-> r.mn, root |-> r.root]]
WkOf(st) ==
  LET ws == st.wk
  IN [w \in {ws[i].id : i \in DOMAIN ws} |->
        LET r == CHOOSE r \in SeqSet(ws) : r.id = w
        IN [running |-> {[t |-> r.running[i].t, inst |-> r.running[i].inst, v |-> r.running[i].v, rq |-> r.running[i].rq,
                            alloc |-> r.running[i].alloc]
                           : i \in DOMAIN r.running},
            backlog |-> UNION {{r.backlog[i].tasks[k].t : k \in DOMAIN r.backlog[i].tasks} : i \in DOMAIN r.backlog},
            blocked |-> SeqSet(r.blocked), s2w |-> r.s2w, w2s |-> r.w2s, stopped |-> r.stopped,
            remaining |-> r.remaining, free |-> r.free]]
JobOfSt(st) ==
  LET js == st.jobs
  IN [j \in {js[i].id : i \in DOMAIN js} |->
        LET r == CHOOSE r \in SeqSet(js) : r.id = j
        IN [open |-> r.open, completed |-> r.completed, n |-> r.n_tasks, cnt |-> r.cnt, maxFails |-> r.max_fails,
            tasks |-> [t \in {r.tasks[i].t : i \in DOMAIN r.tasks} |->
                          (CHOOSE x \in SeqSet(r.tasks) : x.t = t).s]]]
FutOf(st) == {[w |-> st.fut[i].w, t |-> st.fut[i].t, inst |-> st.fut[i].inst] : i \in DOMAIN st.fut}

-----------------------------------------------------------------------------
(* Monitor updates *)

\* static info of the tasks added by an accepted submit
NewTaskInfo(e, old) ==
  IF e.a = "Submit" /\ "ok" \in DOMAIN e.resp /\ e.resp.ok
  THEN LET j == e.resp.job
           ids == {j * 1000 + e.resp.tasks[i] : i \in DOMAIN e.resp.tasks} \ DOMAIN old
           g == e.args.graph
           mf == IF j \in DOMAIN JobOfSt(e.st) THEN JobOfSt(e.st)[j].maxFails ELSE -1
       IN [t \in ids |->
             IF g # <<>> /\ \E i \in DOMAIN g : g[i].id = t % 1000
             THEN LET x == CHOOSE x \in SeqSet(g) : x.id = t % 1000
                  IN [job |-> j, deps |-> {j * 1000 + x.deps[i] : i \in DOMAIN x.deps}, prio |-> x.prio, rq |-> x.class,
                      climit |-> e.args.crash_limit, tlimit |-> x.tl, maxFails |-> mf]
             ELSE [job |-> j, deps |-> {}, prio |-> e.args.prio, rq |-> e.args.class,
                   climit |-> e.args.crash_limit, tlimit |-> e.args.time_limit, maxFails |-> mf]]
  ELSE <<>>

Ext(f, S, d) == [x \in DOMAIN f \cup S |-> IF x \in DOMAIN f THEN f[x] ELSE d]

\* one journal/client event applied to hist
ApplyEv(h, ev) ==
  IF ev.k = "TaskStarted" /\ ev.t \in DOMAIN h
    THEN [h EXCEPT ![ev.t] = Append(@, [k |-> "Started", inst |-> ev.inst, ws |-> ev.ws, cls |-> ""])]
  ELSE IF ev.k = "TaskFinished" /\ ev.t \in DOMAIN h
    THEN [h EXCEPT ![ev.t] = Append(@, [k |-> "Finished", inst |-> -1, ws |-> <<>>, cls |-> ""])]
  ELSE IF ev.k = "TaskFailed" /\ ev.t \in DOMAIN h
    THEN [h EXCEPT ![ev.t] = Append(@, [k |-> "Failed", inst |-> -1, ws |-> <<>>, cls |-> ev.cls])]
  ELSE IF ev.k = "TasksCanceled"
    THEN [t \in DOMAIN h |-> IF t \in SeqSet(ev.ts) THEN Append(h[t], [k |-> "Canceled", inst |-> -1, ws |-> <<>>, cls |-> ""]) ELSE h[t]]
  ELSE IF ev.k = "TasksAborted"
    THEN [t \in DOMAIN h |-> IF t \in SeqSet(ev.ts) THEN Append(h[t], [k |-> "Aborted", inst |-> -1, ws |-> <<>>, cls |-> ""]) ELSE h[t]]
  ELSE h
ApplyEvents(h, evs) == FoldLeft(ApplyEv, h, evs)

\* events naming a task that was never accepted (would be silently dropped by ApplyEv)
UnknownTaskEvents(h, evs) ==
  {i \in DOMAIN evs :
     \/ evs[i].k \in {"TaskStarted", "TaskFinished", "TaskFailed"} /\ evs[i].t \notin DOMAIN h
     \/ evs[i].k \in {"TasksCanceled", "TasksAborted"} /\ ~(SeqSet(evs[i].ts) \subseteq DOMAIN h)}

ApplyStart(ws, s) ==
  IF s.t \in DOMAIN ws THEN [ws EXCEPT ![s.t] = Append(@, [w |-> s.w, inst |-> s.inst, ok |-> s.ok, now |-> s.now])] ELSE ws
ApplyStarts(ws, ss) == FoldLeft(ApplyStart, ws, ss)

CountEv(evs, k, j) == Cardinality({i \in DOMAIN evs : evs[i].k = k /\ evs[i].j = j})

LostEvents(e) == {e.ev[i] : i \in {i \in DOMAIN e.ev : e.ev[i].k = "WorkerLost"}}

\* server had reported t running on w (last thing said about t is a start naming w as (root) worker)
ReportedRunningOn(h, t, w) == h[t] # <<>> /\ Last(h[t]).k = "Started" /\ Last(h[t]).ws # <<>> /\ Last(h[t]).ws[1] = w
ReportedOn(h, t, w) == h[t] # <<>> /\ Last(h[t]).k = "Started" /\ w \in SeqSet(Last(h[t]).ws)

-----------------------------------------------------------------------------
(* Step checks (action properties evaluated on the consumed line) *)

\* all formulas of HQ that are state predicates, by name; "AUX_" = diagnostics, never a verdict
StateProps == <<
  <<"C01_OutcomeOnce", C01_OutcomeOnce>>, <<"C01_FinishAfterStart", C01_FinishAfterStart>>,
  <<"C01_FinishedRan", C01_FinishedRan>>, <<"C01_JobAgrees", C01_JobAgrees>>,
  <<"C01_OutcomeAtRest", C01_OutcomeAtRest>>,
  <<"C01_TimeLimitStops", C01_TimeLimitStops>>, <<"C01_TimeLimitFails", C01_TimeLimitFails>>,
  <<"C02_Registry", C02_Registry>>, <<"C02_QuiescentOk", C02_QuiescentOk>>,
  <<"C02_ClosedJobsComplete", C02_ClosedJobsComplete>>,
  <<"C03_NeverStartedAfterFailedDep", C03_NeverStartedAfterFailedDep>>,
  <<"C03_PropagateAtRest", C03_PropagateAtRest>>, <<"C03_Unaffected", C03_Unaffected>>,
  <<"AUX_DepsCounted", C03_DepsCounted>>,
  <<"C04_RunningExclusive", C04_RunningExclusive>>, <<"C04_RunningExact", C04_RunningExact>>, <<"C04_Conserved", C04_Conserved>>,
  <<"C05_NoOverbook", C05_NoOverbook>>, <<"C05_PlacedCapable", C05_PlacedCapable>>,
  <<"C05_MnExclusive", C05_MnExclusive>>, <<"C05_MnWorkersIdle", C05_MnWorkersIdle>>,
  <<"C06_OneExecution", C06_OneExecution>>, <<"C06_InstMonotone", C06_InstMonotone>>,
  <<"C07_CrashBounds", C07_CrashBounds>>, <<"C07_FailOnlyAtLimit", C07_FailOnlyAtLimit>>,
  <<"C07_LimitReachedFails", C07_LimitReachedFails>>,
  <<"C08_NoReportAfterAck", C08_NoReportAfterAck>>, <<"C08_Released", C08_Released>>,
  <<"C08_StopSent", C08_StopSent>>, <<"C08_NoDangling", C08_NoDangling>>, <<"C08_OthersNotStuck", C08_OthersNotStuck>>,
  <<"C13_CountersMatch", C13_CountersMatch>>, <<"C13_CompletedOnce", C13_CompletedOnce>>,
  <<"C13_StreamGetsCompletion", C13_StreamGetsCompletion>>,
  <<"C14_AbortAllOnExceed", C14_AbortAllOnExceed>>, <<"C14_ExceededStopped", C14_ExceededStopped>>,
  <<"C14_NoAbortWithin", C14_NoAbortWithin>>
>>

-----------------------------------------------------------------------------

Empty == <<>>

TraceInit ==
  /\ l = 1 /\ run = -1 /\ alive = FALSE /\ viol = {} /\ nstates = 0
  /\ task = Empty /\ queue = Empty /\ redirect = Empty /\ srv = Empty /\ needSched = FALSE
  /\ wk = Empty /\ fut = {} /\ job = Empty /\ streams = <<>> /\ now = 0 /\ classes = <<>>
  /\ tinfo = Empty /\ hist = Empty /\ wstarts = Empty /\ ranOk = {} /\ tstops = {} /\ cancelAck = Empty
  /\ wCancel = {} /\ gaveBack = {} /\ nCompleted = Empty /\ mustCrash = Empty /\ mayCrash = Empty /\ exceeded = {}

BindState(st) ==
  /\ task' = TaskOf(st) /\ queue' = QueueOf(st) /\ redirect' = RedirectOf(st) /\ srv' = SrvOf(st)
  /\ needSched' = st.srv.need_sched /\ wk' = WkOf(st) /\ fut' = FutOf(st) /\ job' = JobOfSt(st)
  /\ streams' = st.streams /\ now' = st.now

V(name, e) == [p |-> name, run |-> e.run, i |-> e.i, a |-> e.a, loc |-> ""]

\* a line of a run that is still alive and did not panic
Step(e, extra) ==
  LET nt == NewTaskInfo(e, tinfo)
      tinfo2 == nt @@ tinfo
      hist0 == Ext(hist, DOMAIN nt, <<>>)
      hist2 == ApplyEvents(hist0, e.ev)
      wst2 == ApplyStarts(Ext(wstarts, DOMAIN nt, <<>>), e.starts)
      losts == LostEvents(e)
      \* --- crash monitors (evaluated against the state BEFORE the step)
      must2 == [t \in DOMAIN tinfo2 |->
                  (IF t \in DOMAIN mustCrash THEN mustCrash[t] ELSE 0)
                  + Cardinality({x \in losts : x.fail /\ t \in DOMAIN hist /\ ~HasTerminal(t) /\ ReportedRunningOn(hist, t, x.w)})]
      may2 == [t \in DOMAIN tinfo2 |->
                  (IF t \in DOMAIN mayCrash THEN mayCrash[t] ELSE 0)
                  + Cardinality({x \in losts : x.fail /\ t \in DOMAIN hist /\
                        \/ ReportedOn(hist, t, x.w)
                        \/ x.w \in DOMAIN wk /\ t \in RunningTids(x.w)
                        \/ t \in DOMAIN task /\ task[t].st = "M" /\ x.w \in SeqSet(task[t].ws)})]
      cancelled == IF e.a = "Cancel" /\ e.resp.answered
                   THEN UNION {SeqSet(e.resp.jobs[i].tasks) : i \in DOMAIN e.resp.jobs} ELSE {}
      ack2 == [t \in DOMAIN cancelAck \cup (cancelled \cap DOMAIN hist2) |->
                 IF t \in DOMAIN cancelAck THEN cancelAck[t] ELSE Len(hist2[t])]
      wc2 == wCancel \cup (IF e.a = "S2W" /\ e.args.m.k = "Cancel" THEN {<<e.args.w, t>> : t \in SeqSet(e.args.m.ids)} ELSE {})
      computeNow == IF e.a = "S2W" /\ e.args.m.k = "Compute"
                    THEN {<<e.args.w, e.args.m.tasks[i].t>> : i \in DOMAIN e.args.m.tasks} ELSE {}
      retractedNow == UNION {IF e.sent[i].ch = "w2s" /\ e.sent[i].m.k = "RetractResponse"
                             THEN {<<e.sent[i].w, t>> : t \in SeqSet(e.sent[i].m.ids)} ELSE {} : i \in DOMAIN e.sent}
      gb1 == gaveBack \ computeNow
      gb2 == {p \in gb1 \cup retractedNow : p[1] \in DOMAIN WkOf(e.st)}
      ran2 == ranOk \cup (IF e.a = "Exit" /\ e.args.ok THEN {[t |-> e.args.t, w |-> e.args.w, inst |-> e.args.inst]} ELSE {})
      stops2 == tstops \cup {[t |-> e.stops[i].t, w |-> e.stops[i].w, inst |-> e.stops[i].inst, reason |-> e.stops[i].reason] : i \in DOMAIN e.stops}
      jobsSeen == DOMAIN nCompleted \cup DOMAIN JobOfSt(e.st)
      ncomp2 == [j \in jobsSeen |-> (IF j \in DOMAIN nCompleted THEN nCompleted[j] ELSE 0) + CountEv(e.ev, "JobCompleted", j)]
      nfailed(j) == Cardinality({t \in DOMAIN tinfo2 : tinfo2[t].job = j /\ hist2[t] # <<>> /\ Last(hist2[t]).k = "Failed"})
      exc2 == exceeded \cup {j \in {tinfo2[t].job : t \in DOMAIN tinfo2} :
                               \E t \in DOMAIN tinfo2 : tinfo2[t].job = j /\ tinfo2[t].maxFails >= 0 /\ nfailed(j) > tinfo2[t].maxFails}
      \* --- step (action) properties
      stepViol ==
        \* C03: a launch only after every dependency finished
        (IF \E i \in DOMAIN e.starts : e.starts[i].ok /\ e.starts[i].t \in DOMAIN tinfo2 /\
               \E d \in tinfo2[e.starts[i].t].deps : ~(d \in DOMAIN hist /\ hist[d] # <<>> /\ Last(hist[d]).k = "Finished")
         THEN {"C03_NoEarlyStart"} ELSE {})
        \cup
        \* C06: no launch of a task the worker has given back
        (IF \E i \in DOMAIN e.starts : <<e.starts[i].w, e.starts[i].t>> \in gb1 THEN {"C06_NoStartAfterGiveBack"} ELSE {})
        \cup
        \* C08: no launch of a task after the worker processed its cancel
        (IF \E i \in DOMAIN e.starts : <<e.starts[i].w, e.starts[i].t>> \in wc2 THEN {"C08_NoStartAfterCancelSeen"} ELSE {})
        \cup
        \* C08: the answered cancel covers exactly the tasks that were not terminal, reports them canceled, touches nothing else
        (IF e.a = "Cancel" /\ e.resp.answered /\
              \E t \in DOMAIN tinfo : tinfo[t].job = e.args.job /\
                 \/ ~HasTerminal(t) /\ ~(hist2[t] # <<>> /\ Last(hist2[t]).k = "Canceled" /\ t \in cancelled)
                 \/ HasTerminal(t) /\ hist2[t] # hist[t]
         THEN {"C08_AllCanceled"} ELSE {})
        \cup
        (IF e.a = "Cancel" /\ \E t \in DOMAIN tinfo : tinfo[t].job # e.args.job /\ hist2[t] # hist[t]
         THEN {"C08_OthersUntouched"} ELSE {})
        \cup
        (IF e.a = "Cancel" /\ e.resp.answered /\ (\A t \in DOMAIN tinfo : tinfo[t].job = e.args.job => HasTerminal(t))
              /\ (e.ev # <<>> \/ e.sent # <<>> \/ cancelled # {})
         THEN {"C08_Idempotent"} ELSE {})
        \cup
        \* C13: a rejected submit has no effect
        (IF e.a = "Submit" /\ "ok" \in DOMAIN e.resp /\ ~e.resp.ok /\
              (e.ev # <<>> \/ e.sent # <<>> \/ TaskOf(e.st) # task \/ JobOfSt(e.st) # job)
         THEN {"C13_RejectedSubmitNoEffect"} ELSE {})
        \cup
        \* C13: an accepted submit adds exactly its ids
        (IF e.a = "Submit" /\ "ok" \in DOMAIN e.resp /\ e.resp.ok /\ ~e.args.stream THEN
            LET j == e.resp.job
                added == {t % 1000 : t \in DOMAIN nt}
                prev == {t % 1000 : t \in {x \in DOMAIN tinfo : tinfo[x].job = j}}
                mx == IF prev = {} THEN -1 ELSE Max(prev)
                expected == IF e.args.graph # <<>> THEN {e.args.graph[i].id : i \in DOMAIN e.args.graph}
                            ELSE IF e.args.ids # <<>> THEN SeqSet(e.args.ids)
                            ELSE IF e.args.entries > 0 THEN (mx + 1)..(mx + e.args.entries)
                            ELSE {mx + 1}
            IN IF added # expected \/ (\E t \in DOMAIN nt : t \notin DOMAIN TaskOf(e.st) /\ ~(hist2[t] # <<>> /\ Last(hist2[t]).k \in Terminal))
               THEN {"C13_SubmitAddsExactly"} ELSE {}
         ELSE {})
        \cup
        \* C13: what a client is told about a job is consistent in itself (the counts are the numbers of its tasks in each state) and
        \* the job state computed from it follows the documented rules (docs/jobs/jobs.md, first rule that matches)
        (IF e.a = "Query" /\ \E i \in DOMAIN e.resp : e.resp[i].found /\
              LET d == e.resp[i]
                  N(st) == Cardinality({k \in DOMAIN d.tasks : d.tasks[k].s = st})
              IN \/ d.n_tasks # Len(d.tasks) \/ d.cnt.running # N("Running") \/ d.cnt.finished # N("Finished") \/ d.cnt.failed # N("Failed")
                 \/ d.cnt.canceled # N("Canceled") \/ d.cnt.aborted # N("Aborted")
         THEN {"C13_ReportedCountsMatch"} ELSE {})
        \cup
        (IF e.a = "Query" /\ \E i \in DOMAIN e.resp : e.resp[i].found /\
              LET d == e.resp[i]
                  N(st) == Cardinality({k \in DOMAIN d.tasks : d.tasks[k].s = st})
                  rule == IF N("Running") > 0 THEN "Running" ELSE IF N("Waiting") > 0 THEN "Waiting" ELSE IF N("Failed") > 0 THEN "Failed"
                          ELSE IF N("Aborted") > 0 THEN "Aborted" ELSE IF N("Canceled") > 0 THEN "Canceled" ELSE IF d.open THEN "Opened" ELSE "Finished"
              IN d.status # rule
         THEN {"C13_StatusRule"} ELSE {})
        \cup
        \* C07: "never-restart tasks fail on ANY loss": a never-restart task the server had reported as running on a worker gets
        \* its outcome in the very reactor call that removes the worker - whatever the reason (failure, stop, idle timeout, time limit)
        (IF \E x \in losts : \E t \in DOMAIN hist : t \in DOMAIN tinfo /\ tinfo[t].climit = -1 /\ ~HasTerminal(t) /\ ReportedOn(hist, t, x.w)
               /\ ~(hist2[t] # <<>> /\ Last(hist2[t]).k \in Terminal)
         THEN {"C07_NeverRestartFailsOnAnyLoss"} ELSE {})
        \cup
        \* C01/C13: no event about a task that was never accepted
        (IF UnknownTaskEvents(hist0, e.ev) # {} THEN {"C01_UnknownTaskReported"} ELSE {})
        \cup
        \* C05: a task is sent for execution only where the remaining life time covers its time request
        (IF e.a = "Schedule" /\ \E i \in DOMAIN e.sent : e.sent[i].ch = "s2w" /\ e.sent[i].m.k = "Compute" /\
               \E k \in DOMAIN e.sent[i].m.tasks :
                  LET ct == e.sent[i].m.tasks[k] IN
                    ct.v >= 0 /\ ct.nodes = <<>> /\ e.sent[i].w \in DOMAIN WkOf(e.st) /\ WkOf(e.st)[e.sent[i].w].remaining >= 0 /\
                    WkOf(e.st)[e.sent[i].w].remaining < classes[ct.rq + 1][ct.v + 1].min_time
         THEN {"C05_LifetimeCovers"} ELSE {})
        \cup
        \* C05: a multi-node placement has exactly the requested number of workers
        (IF e.a = "Schedule" /\ \E t \in DOMAIN TaskOf(e.st) :
               TaskOf(e.st)[t].st = "M" /\ (t \notin DOMAIN task \/ task[t].st # "M") /\
               Len(TaskOf(e.st)[t].ws) # classes[TaskOf(e.st)[t].rq + 1][1].n_nodes
         THEN {"C05_MnSize"} ELSE {})
  IN
  /\ BindState(e.st)
  /\ tinfo' = tinfo2 /\ hist' = hist2 /\ wstarts' = wst2 /\ ranOk' = ran2 /\ tstops' = stops2
  /\ cancelAck' = ack2 /\ wCancel' = {p \in wc2 : p[1] \in DOMAIN WkOf(e.st)} /\ gaveBack' = gb2
  /\ nCompleted' = ncomp2 /\ mustCrash' = must2 /\ mayCrash' = may2 /\ exceeded' = exc2
  /\ classes' = classes
  /\ viol' = viol \cup {V(n, e) : n \in stepViol} \cup extra
               \cup (LET sp == StateProps' IN {V(sp[k][1], e) : k \in {k \in DOMAIN sp : ~sp[k][2]}})

Reset(e) ==
  /\ BindState(e.st)
  /\ classes' = e.args.requests
  /\ tinfo' = Empty /\ hist' = Empty /\ wstarts' = Empty /\ ranOk' = {} /\ tstops' = {} /\ cancelAck' = Empty
  /\ wCancel' = {} /\ gaveBack' = {} /\ nCompleted' = Empty /\ mustCrash' = Empty /\ mayCrash' = Empty /\ exceeded' = {}
  /\ viol' = viol

\* extra: further (diagnostic) records to add for this line (module HQConform)
TraceNextWith(extra) ==
  /\ l <= Len(Rec)
  /\ l' = l + 1
  /\ nstates' = nstates + 1
  /\ LET e == Rec[l] IN
       IF e.a = "Reset" THEN
         /\ run' = e.run
         /\ IF e.pan = 0 THEN alive' = TRUE /\ Reset(e)
            ELSE /\ alive' = FALSE /\ UNCHANGED vars /\ viol' = viol \cup {[V("C09_NoPanic", e) EXCEPT !.loc = e.panic.loc]}
       ELSE IF ~alive THEN UNCHANGED <<vars, run, alive, viol>>
       ELSE IF e.pan = 1 THEN
         /\ alive' = FALSE /\ run' = run /\ UNCHANGED vars
         /\ viol' = viol \cup {[V("C09_NoPanic", e) EXCEPT !.loc = e.panic.loc]}
       ELSE /\ run' = run /\ alive' = alive /\ Step(e, extra)

TraceNext == TraceNextWith({})

TraceSpec == TraceInit /\ [][TraceNext]_tvars

\* all lines consumed; print the verdict
TraceAccepted ==
  LET d == TLCGet("stats").diameter IN
  /\ PrintT(<<"VERDICT", ToJson([lines |-> Len(Rec), diameter |-> d])>>)
  /\ d - 1 = Len(Rec)

\* evaluated in the last state (CONSTRAINT-free invariant that prints once at the end)
AtEnd == l = Len(Rec) + 1 => PrintT(<<"VIOL", ToJson(viol)>>)
=============================================================================
