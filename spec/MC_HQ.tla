------------------------------- MODULE MC_HQ -------------------------------
(* Model-checking instances of HQModel.  Amounts are in 1/10000 units as in the code. *)
EXTENDS HQModel

Cpu1 == <<[n_nodes |-> 0, entries |-> <<[r |-> 0, amount |-> 10000]>>, min_time |-> 0]>>
Cpu2 == <<[n_nodes |-> 0, entries |-> <<[r |-> 0, amount |-> 20000]>>, min_time |-> 0]>>

T(id, deps, rq, prio) == [id |-> id, deps |-> deps, rq |-> rq, prio |-> prio]
S(jb, ts, climit, maxFails) == [job |-> jb, tasks |-> ts, climit |-> climit, maxFails |-> maxFails]

\* ---- instance A: two workers, one class, a dependency, a later higher-priority job
A_Workers == (1 :> 10000) @@ (2 :> 10000)
A_Classes == <<Cpu1>>
A_Menu == << S(1, <<T(1, {}, 0, 0), T(2, {}, 0, 0), T(3, {1}, 0, 0)>>, 1, -1),
             S(2, <<T(1, {}, 0, 1)>>, 1, -1) >>

\* ---- instance B: two classes competing for one 2-cpu worker + a 1-cpu worker, max-fails 0
B_Workers == (1 :> 20000) @@ (2 :> 10000)
B_Classes == <<Cpu1, Cpu2>>
B_Menu == << S(1, <<T(1, {}, 0, 0), T(2, {}, 1, 0), T(3, {}, 0, 0)>>, 2, 0),
             S(2, <<T(1, {}, 1, 1)>>, 0, -1) >>

\* ---- instance C: a single worker with a deep backlog (proactive filling), cancel and loss
C_Workers == (1 :> 10000)
C_Classes == <<Cpu1>>
C_Menu == << S(1, <<T(1, {}, 0, 0), T(2, {}, 0, 0), T(3, {}, 0, 0), T(4, {2}, 0, 0)>>, 1, 1),
             S(2, <<T(1, {}, 0, 2)>>, -1, -1) >>

Bounded == \A w \in DOMAIN wk : Len(wk[w].s2w) <= 6 /\ Len(wk[w].w2s) <= 6
=============================================================================
