------------------------------ MODULE Journal ------------------------------
(***************************************************************************)
(* Reference semantics of the HyperQueue journal.                          *)
(*                                                                         *)
(* A journal is a sequence of abstract records (the persisted subset of    *)
(* EventPayload):                                                          *)
(*   [k |-> "Submit", j, closed, tasks : Seq([id, deps]), max_fails]       *)
(*   [k |-> "JobOpen" | "JobClose" | "JobCancel" | "JobCompleted", j]      *)
(*   [k |-> "TaskStarted", t, inst, ws] [k |-> "TaskFinished", t]          *)
(*   [k |-> "TaskFailed", t] [k |-> "TasksCanceled" | "TasksAborted", ts]  *)
(*   [k |-> "WorkerConnected", w] [k |-> "WorkerLost", w, fail]            *)
(*   [k |-> "QueueCreated" | "QueueRemoved", q]                            *)
(*   [k |-> "AllocationQueued", q, a] [k |-> "ServerStart", uid] ...       *)
(*                                                                         *)
(* DurableView(p) says DECLARATIVELY what a user is entitled to find after *)
(* a restart from the prefix p (properties C10, C06/C07 across restarts);  *)
(* Mentioned*(p) are the ids occurring anywhere in p (C11); MustKeep is    *)
(* what pruning may not remove (C12).  Restore(p) is the OPERATIONAL fold  *)
(* that mirrors StateRestorer::load_event_file + restore_job; module       *)
(* JournalModel checks Restore = DurableView on all journals of a small    *)
(* generator, module JournalTrace checks the real restorer against         *)
(* DurableView on journals produced by real executions.                    *)
(***************************************************************************)
EXTENDS Naturals, Integers, Sequences, FiniteSets, SequencesExt, FiniteSetsExt, TLC

Tid(j, id) == j * 1000 + id
JobOfT(t) == t \div 1000
SSet(s) == {s[i] : i \in DOMAIN s}
TerminalStates == {"Finished", "Failed", "Canceled", "Aborted"}
JobKinds == {"Submit", "JobOpen", "JobClose", "JobCancel", "JobCompleted"}
TaskKinds == {"TaskStarted", "TaskFinished", "TaskFailed"}
BatchKinds == {"TasksCanceled", "TasksAborted"}
WorkerKinds == {"WorkerConnected", "WorkerLost"}

-----------------------------------------------------------------------------
(* Declarative durable view of a prefix p *)

JobsIn(p) == {p[i].j : i \in {i \in DOMAIN p : p[i].k = "JobOpen" \/ (p[i].k = "Submit" /\ p[i].closed)}}
CompletedIn(p, j) == \E i \in DOMAIN p : p[i].k = "JobCompleted" /\ p[i].j = j
LiveJobs(p) == {j \in JobsIn(p) : ~CompletedIn(p, j)}
IsOpen(p, j) ==
  /\ \E i \in DOMAIN p : p[i].k = "JobOpen" /\ p[i].j = j
  /\ ~\E i \in DOMAIN p : p[i].k = "JobClose" /\ p[i].j = j
\* submits that belong to job j: the closed-job submit, or attachments after its JobOpen
SubmitIdx(p, j) ==
  {i \in DOMAIN p : p[i].k = "Submit" /\ p[i].j = j /\
      (p[i].closed \/ \E i0 \in 1..(i - 1) : p[i0].k = "JobOpen" /\ p[i0].j = j)}
TaskDefs(p, j) ==
  UNION {{[t |-> Tid(j, x.id), deps |-> {Tid(j, d) : d \in SSet(x.deps)}] : x \in SSet(p[i].tasks)} : i \in SubmitIdx(p, j)}
TasksOfJob(p, j) == {d.t : d \in TaskDefs(p, j)}
DepsOf(p, t) == UNION {d.deps : d \in {d \in TaskDefs(p, JobOfT(t)) : d.t = t}}

OutcomeAt(r, t) ==
  IF r.k = "TaskFinished" /\ r.t = t THEN "Finished"
  ELSE IF r.k = "TaskFailed" /\ r.t = t THEN "Failed"
  ELSE IF r.k = "TasksCanceled" /\ t \in SSet(r.ts) THEN "Canceled"
  ELSE IF r.k = "TasksAborted" /\ t \in SSet(r.ts) THEN "Aborted"
  ELSE "none"
TermIdx(p, t) == {i \in DOMAIN p : OutcomeAt(p[i], t) # "none"}
Outcome(p, t) == IF TermIdx(p, t) = {} THEN "none" ELSE OutcomeAt(p[Max(TermIdx(p, t))], t)
JobState(p, t) == IF Outcome(p, t) = "none" THEN "Waiting" ELSE Outcome(p, t)

Pending(p) == UNION {{t \in TasksOfJob(p, j) : Outcome(p, t) = "none"} : j \in LiveJobs(p)}
RemainingDeps(p, t) == {d \in DepsOf(p, t) : Outcome(p, d) = "none"}

StartIdx(p, t) == {i \in DOMAIN p : p[i].k = "TaskStarted" /\ p[i].t = t}
MaxStartedInst(p, t) == IF StartIdx(p, t) = {} THEN -1 ELSE Max({p[i].inst : i \in StartIdx(p, t)})

\* index of the record that last said something about t before position i (0 = nothing)
LastAbout(p, t, i) ==
  LET S == {k \in 1..(i - 1) : (p[k].k = "TaskStarted" /\ p[k].t = t) \/ OutcomeAt(p[k], t) # "none"}
  IN IF S = {} THEN 0 ELSE Max(S)
\* failure-losses of the (root) worker on which t was reported running; "lo" counts the root/single node,
\* "hi" also the other nodes of a multi-node task
LossIdx(p) == {i \in DOMAIN p : p[i].k = "WorkerLost" /\ p[i].fail}
CrashLo(p, t) ==
  Cardinality({i \in LossIdx(p) : LET s == LastAbout(p, t, i) IN
     s > 0 /\ p[s].k = "TaskStarted" /\ p[s].ws # <<>> /\ p[s].ws[1] = p[i].w /\
     ~\E i2 \in (s + 1)..(i - 1) : p[i2].k = "WorkerLost" /\ p[i2].w = p[s].ws[1]})
CrashHi(p, t) ==
  Cardinality({i \in LossIdx(p) : LET s == LastAbout(p, t, i) IN
     s > 0 /\ p[s].k = "TaskStarted" /\ p[i].w \in SSet(p[s].ws)})

LiveQueues(p) ==
  {p[i].q : i \in {i \in DOMAIN p : p[i].k = "QueueCreated" /\ ~\E i2 \in (i + 1)..Len(p) : p[i2].k = "QueueRemoved" /\ p[i2].q = p[i].q}}

-----------------------------------------------------------------------------
(* Mentioned ids (C11) *)
MentionedJobs(p) ==
  {p[i].j : i \in {i \in DOMAIN p : p[i].k \in JobKinds}}
  \cup {JobOfT(p[i].t) : i \in {i \in DOMAIN p : p[i].k \in TaskKinds}}
  \cup UNION {{JobOfT(t) : t \in SSet(p[i].ts)} : i \in {i \in DOMAIN p : p[i].k \in BatchKinds}}
MentionedWorkers(p) ==
  {p[i].w : i \in {i \in DOMAIN p : p[i].k \in WorkerKinds}}
  \cup UNION {SSet(p[i].ws) : i \in {i \in DOMAIN p : p[i].k = "TaskStarted"}}
MentionedQueues(p) == {p[i].q : i \in {i \in DOMAIN p : p[i].k \in {"QueueCreated", "QueueRemoved", "AllocationQueued"}}}
MaxOr0(S) == IF S = {} THEN 0 ELSE Max(S)
FirstUid(p) ==
  LET S == {i \in DOMAIN p : p[i].k = "ServerStart"} IN IF S = {} THEN "" ELSE p[Min(S)].uid

-----------------------------------------------------------------------------
(* What pruning has to keep (C12) *)
AboutDead(r, liveJobs, liveWorkers) ==
  \/ r.k \in JobKinds /\ r.j \notin liveJobs
  \/ r.k \in TaskKinds /\ JobOfT(r.t) \notin liveJobs
  \/ r.k \in WorkerKinds /\ r.w \notin liveWorkers
  \/ r.k \in BatchKinds /\ \A t \in SSet(r.ts) : JobOfT(t) \notin liveJobs
LiveOnly(r, liveJobs) ==
  IF r.k \in BatchKinds THEN [r EXCEPT !.ts = SelectSeq(r.ts, LAMBDA t : JobOfT(t) \in liveJobs)] ELSE r
MapSeq(s, f(_)) == [i \in DOMAIN s |-> f(s[i])]
MustKeep(p, liveJobs, liveWorkers) ==
  MapSeq(SelectSeq(p, LAMBDA r : ~AboutDead(r, liveJobs, liveWorkers)), LAMBDA r : LiveOnly(r, liveJobs))
DerivedFrom(r, p) ==
  \E i \in DOMAIN p : r = p[i] \/ (r.k \in BatchKinds /\ p[i].k = r.k /\ SSet(r.ts) \subseteq SSet(p[i].ts))
=============================================================================
