----------------------------- MODULE StreamModel -----------------------------
(***************************************************************************)
(* Streamed task output as a STATE MACHINE (C19).                           *)
(*                                                                         *)
(* Code modelled (crates/hyperqueue/src):                                  *)
(*   worker/streamer.rs   StreamerRef::get_stream  -> Start                *)
(*                        StreamSender::send_data  -> Write / CloseChan    *)
(*                        StreamSender::flush      -> EndReq (+ ack)       *)
(*                        stream_writer            -> WriterStep           *)
(*                        tokio BufWriter / fs::File writing through       *)
(*                        before a flush           -> Spill                *)
(*   worker/start/program.rs create_task_future: flush, THEN the result of *)
(*                        the task is reported     -> Report               *)
(*   death of a worker process                     -> Crash                *)
(*   stream/reader/outputlog.rs create_index + last_instance/superseded    *)
(*                                                 -> Index / View         *)
(*                                                                         *)
(* One file per worker.  A record is [t, i, c, n, name, ok]: task,         *)
(* instance, channel, size (0 = the channel is closed), the chunk's name,  *)
(* ok = the data is completely in the file.                                *)
(***************************************************************************)
EXTENDS Naturals, Integers, Sequences, FiniteSets, SequencesExt, Functions, TLC

CONSTANTS Workers,     \* set of worker ids (naturals)
          Tasks,       \* set of task ids
          MaxInst,     \* instances 0 .. MaxInst-1
          MaxChunks,   \* data chunks per channel and execution
          MaxCrashes,
          Chans,       \* channels an execution uses: {0} or {0, 1}; an unused one counts as closed from the start
          FlushOnlyIfIdle   \* FALSE = the code; TRUE = the (wrong) variant "flush only when nothing is queued behind the request"

VARIABLES ex,      \* [Tasks \X Inst -> [st, w, sent, closed]]
          queue,   \* [Workers -> Seq(message)]     the channel to stream_writer
          buf,     \* [Workers -> Seq(record)]      handed to the BufWriter, not (completely) in the file
          part,    \* [Workers -> 0..2]  of Head(buf[w]): 0 nothing readable, 1 part of the header, 2 header + part of the data
          disk,    \* [Workers -> Seq(record)]      in the file
          alive,   \* [Workers -> BOOLEAN]
          acked,   \* executions whose end-of-task flush was acknowledged
          crashes

vars == <<ex, queue, buf, part, disk, alive, acked, crashes>>

Inst == 0 .. MaxInst - 1
Ended == {"finished", "failed", "crashed"}
NoExec == [st |-> "none", w |-> 0, sent |-> <<<<>>, <<>>>>, closed |-> <<0 \notin Chans, 1 \notin Chans>>]

Rec(t, i, c, n, name) == [t |-> t, i |-> i, c |-> c, n |-> n, name |-> name, ok |-> TRUE]

Init ==
  /\ ex = [k \in Tasks \X Inst |-> NoExec]
  /\ queue = [w \in Workers |-> <<>>]
  /\ buf = [w \in Workers |-> <<>>]
  /\ part = [w \in Workers |-> 0]
  /\ disk = [w \in Workers |-> <<>>]
  /\ alive = [w \in Workers |-> TRUE]
  /\ acked = {}
  /\ crashes = 0

-----------------------------------------------------------------------------
\* task side

\* a new instance is started only after the earlier one was started, and never next to an earlier one on the same worker
\* (the worker's running-task map); instances on different workers may overlap (the server gave up on a worker that lives)
Start(t, i, w) ==
  /\ ex[<<t, i>>].st = "none" /\ alive[w]
  /\ \A j \in Inst : j < i => ex[<<t, j>>].st # "none" /\ (ex[<<t, j>>].w = w => ex[<<t, j>>].st \in Ended)
  /\ ex' = [ex EXCEPT ![<<t, i>>] = [NoExec EXCEPT !.st = "run", !.w = w]]
  /\ UNCHANGED <<queue, buf, part, disk, alive, acked, crashes>>

Write(t, i, c, n, name) ==
  LET e == ex[<<t, i>>] IN
  /\ e.st = "run" /\ ~e.closed[c + 1] /\ n > 0
  /\ ex' = [ex EXCEPT ![<<t, i>>].sent[c + 1] = Append(@, name)]
  /\ queue' = [queue EXCEPT ![e.w] = Append(@, [k |-> "W", r |-> Rec(t, i, c, n, name)])]
  /\ UNCHANGED <<buf, part, disk, alive, acked, crashes>>

CloseChan(t, i, c) ==
  LET e == ex[<<t, i>>] IN
  /\ e.st = "run" /\ ~e.closed[c + 1]
  /\ ex' = [ex EXCEPT ![<<t, i>>].closed[c + 1] = TRUE]
  /\ queue' = [queue EXCEPT ![e.w] = Append(@, [k |-> "W", r |-> Rec(t, i, c, 0, "")])]
  /\ UNCHANGED <<buf, part, disk, alive, acked, crashes>>

\* the task ended (both pipes at EOF): flush requested
EndReq(t, i) ==
  LET e == ex[<<t, i>>] IN
  /\ e.st = "run" /\ e.closed[1] /\ e.closed[2]
  /\ ex' = [ex EXCEPT ![<<t, i>>].st = "flushing"]
  /\ queue' = [queue EXCEPT ![e.w] = Append(@, [k |-> "F", t |-> t, i |-> i])]
  /\ UNCHANGED <<buf, part, disk, alive, acked, crashes>>

\* the result is reported only after the flush was acknowledged
Report(t, i, r) ==
  /\ ex[<<t, i>>].st = "flushing" /\ <<t, i>> \in acked /\ r \in {"finished", "failed"}
  /\ ex' = [ex EXCEPT ![<<t, i>>].st = r]
  /\ UNCHANGED <<queue, buf, part, disk, alive, acked, crashes>>

\* an execution that stops without a word (killed together with its future): nothing is promised about it
Abandon(t, i) ==
  /\ ex[<<t, i>>].st \in {"run", "flushing"}
  /\ ex' = [ex EXCEPT ![<<t, i>>].st = "crashed"]
  /\ UNCHANGED <<queue, buf, part, disk, alive, acked, crashes>>

-----------------------------------------------------------------------------
\* writer side

WriterStep(w) ==
  /\ alive[w] /\ queue[w] # <<>>
  /\ LET m == Head(queue[w]) IN
     /\ queue' = [queue EXCEPT ![w] = Tail(@)]
     /\ IF m.k = "W"
        THEN /\ buf' = [buf EXCEPT ![w] = Append(@, m.r)]
             /\ UNCHANGED <<part, disk, acked>>
        ELSE /\ IF FlushOnlyIfIdle /\ Tail(queue[w]) # <<>>
                THEN UNCHANGED <<buf, part, disk>>
                ELSE /\ disk' = [disk EXCEPT ![w] = @ \o buf[w]]
                     /\ buf' = [buf EXCEPT ![w] = <<>>]
                     /\ part' = [part EXCEPT ![w] = 0]
             /\ acked' = acked \cup {<<m.t, m.i>>}
  /\ UNCHANGED <<ex, alive, crashes>>

\* the buffered writer writes through on its own: k whole records and p of the next one
SpillTo(w, k, p) ==
  /\ k \in 0 .. Len(buf[w]) /\ p \in 0 .. 2
  /\ k < Len(buf[w]) \/ p = 0
  /\ p = 2 => buf[w][k + 1].n > 0
  /\ k > 0 \/ p > part[w]
  /\ disk' = [disk EXCEPT ![w] = @ \o SubSeq(buf[w], 1, k)]
  /\ buf' = [buf EXCEPT ![w] = SubSeq(@, k + 1, Len(@))]
  /\ part' = [part EXCEPT ![w] = p]

Spill(w) ==
  /\ alive[w] /\ buf[w] # <<>>
  /\ \E k \in 0 .. Len(buf[w]), p \in 0 .. 2 : SpillTo(w, k, p)
  /\ UNCHANGED <<ex, queue, alive, acked, crashes>>

\* what a reader finds in the file of w
File(w) == disk[w] \o (IF part[w] = 2 THEN <<[Head(buf[w]) EXCEPT !.ok = FALSE]>> ELSE <<>>)

\* the worker process dies: queue and buffer are gone, the file stays as it is (possibly with a torn last record)
Crash(w) ==
  /\ alive[w] /\ crashes < MaxCrashes
  /\ crashes' = crashes + 1
  /\ alive' = [alive EXCEPT ![w] = FALSE]
  /\ disk' = [disk EXCEPT ![w] = File(w)]
  /\ buf' = [buf EXCEPT ![w] = <<>>]
  /\ part' = [part EXCEPT ![w] = 0]
  /\ queue' = [queue EXCEPT ![w] = <<>>]
  /\ ex' = [k \in DOMAIN ex |-> IF ex[k].w = w /\ ex[k].st \in {"run", "flushing"} THEN [ex[k] EXCEPT !.st = "crashed"] ELSE ex[k]]
  /\ UNCHANGED acked

Next ==
  \/ \E t \in Tasks, i \in Inst, w \in Workers : Start(t, i, w)
  \/ \E t \in Tasks, i \in Inst, c \in Chans :
       \/ Len(ex[<<t, i>>].sent[c + 1]) < MaxChunks /\ Write(t, i, c, 1, <<t, i, c, Len(ex[<<t, i>>].sent[c + 1])>>)
       \/ CloseChan(t, i, c)
  \/ \E t \in Tasks, i \in Inst : EndReq(t, i) \/ Abandon(t, i) \/ \E r \in {"finished", "failed"} : Report(t, i, r)
  \/ \E w \in Workers : WriterStep(w) \/ Spill(w) \/ Crash(w)

Spec == Init /\ [][Next]_vars

-----------------------------------------------------------------------------
\* the reader: OutputLog::create_index over the files (in any order), then last_instance()/superseded()

\* the chunk headers of task t in scan order: consecutive headers of one instance form one InstanceInfo
Index(recs, t) ==
  FoldLeft(LAMBDA acc, r :
             IF r.t # t THEN acc ELSE
             LET acc1 == IF acc = <<>> \/ Last(acc).inst # r.i
                         THEN Append(acc, [inst |-> r.i, ch |-> <<<<>>, <<>>>>, fin |-> FALSE]) ELSE acc
                 n == Len(acc1) IN
             IF r.n > 0 THEN [acc1 EXCEPT ![n].ch[r.c + 1] = Append(@, r)] ELSE [acc1 EXCEPT ![n].fin = TRUE],
           <<>>, recs)

\* instances.sort_by_key(instance_id) is stable: the last entry is the LAST one among those with the highest id
LastPos(ix) == CHOOSE k \in DOMAIN ix :
                  \A j \in DOMAIN ix : ix[j].inst <= ix[k].inst /\ (j > k => ix[j].inst < ix[k].inst)

View(recs, t, c) ==
  LET ix == Index(recs, t) IN
  IF ix = <<>> THEN [found |-> FALSE, err |-> FALSE, inst |-> -1, finished |-> FALSE, tokens |-> <<>>, superseded |-> {}]
  ELSE LET k == LastPos(ix) chunks == ix[k].ch[c + 1] IN
       [found |-> TRUE,
        err |-> \E q \in DOMAIN chunks : ~chunks[q].ok,
        inst |-> ix[k].inst,
        finished |-> ix[k].fin,
        tokens |-> [q \in DOMAIN chunks |-> chunks[q].name],
        superseded |-> {ix[q].inst : q \in DOMAIN ix \ {k}}]

WorkerSeq == SetToSortSeq(Workers, <)
AllRecs(files) == FoldLeft(LAMBDA acc, w : acc \o files[w], <<>>, WorkerSeq)
AllRecsRev(files) == FoldLeft(LAMBDA acc, w : acc \o files[w], <<>>, Reverse(WorkerSeq))
Files == [w \in Workers |-> File(w)]

-----------------------------------------------------------------------------
\* C19 on the state machine

Started(t) == {i \in Inst : ex[<<t, i>>].st # "none"}
LastI(t) == CHOOSE i \in Started(t) : \A j \in Started(t) : j <= i
DecidedM(t) == Started(t) # {} /\ ex[<<t, LastI(t)>>].st \in {"finished", "failed"}

C19_ExactBytesInOrder ==
  \A t \in Tasks, c \in 0 .. 1 : DecidedM(t) =>
     LET v == View(AllRecs(Files), t, c) IN v.found /\ ~v.err /\ v.tokens = ex[<<t, LastI(t)>>].sent[c + 1]
C19_OnlyLastRun ==
  \A t \in Tasks, c \in 0 .. 1 : DecidedM(t) => View(AllRecs(Files), t, c).inst = LastI(t)
C19_MarkedFinished ==
  \A t \in Tasks, c \in Chans : DecidedM(t) => View(AllRecs(Files), t, c).finished
C19_SupersededReported ==
  \A t \in Tasks, c \in 0 .. 1 : DecidedM(t) =>
     View(AllRecs(Files), t, c).superseded \subseteq {i \in Started(t) : i < LastI(t)}
\* the answer does not depend on the order in which read_dir lists the files
AUX_FileOrderIrrelevant ==
  \A t \in Tasks, c \in 0 .. 1 : View(AllRecs(Files), t, c) = View(AllRecsRev(Files), t, c)

TypeOK ==
  /\ \A k \in DOMAIN ex : ex[k].st \in {"none", "run", "flushing"} \cup Ended
  /\ \A w \in Workers : part[w] \in 0 .. 2 /\ (part[w] > 0 => buf[w] # <<>>)
=============================================================================
