--------------------------- MODULE AutoAllocTrace ---------------------------
(***************************************************************************)
(* Validation of the REAL autoalloc code (`hqv autoalloc`: the real        *)
(* handle_message / perform_submits / do_periodic_update / remove_queue    *)
(* with a mock QueueHandler and real demand from a real core) against      *)
(* module AutoAlloc.  One ndjson line = one environment step with its      *)
(* arguments, the handler calls it caused, the events it emitted and the   *)
(* projection of the real state after it.                                  *)
(***************************************************************************)
EXTENDS AutoAlloc, Json, IOUtils

VARIABLES l, viol, Q, now, cfg, lastAttempt, startedEv, finishedEv, connEver, lostRunning, resumedOver, knownRes, alive

Rec == ndJsonDeserialize(IOEnv.TRACE)
DelaysVal == <<0, 1, 2>>
SSet(s) == {s[i] : i \in DOMAIN s}

QOf(st, la) ==
  LET qs == st.queues IN
  [q \in {qs[i].id : i \in DOMAIN qs} |->
     LET r == CHOOSE r \in SSet(qs) : r.id = q IN
     [active |-> r.active, backlog |-> r.backlog, maxPer |-> r.max_per_alloc, maxW |-> r.max_workers,
      allocs |-> [a \in {r.allocs[i].id : i \in DOMAIN r.allocs} |->
                    LET x == CHOOSE x \in SSet(r.allocs) : x.id = a IN
                    [st |-> x.st, target |-> x.target, connected |-> SSet(x.connected), ndisc |-> x.n_disconnected, errs |-> x.errs]],
      lim |-> [level |-> r.lim.level, subFails |-> r.lim.sub_fails, allocFails |-> r.lim.alloc_fails, attempted |-> r.lim.attempted,
               last |-> IF r.id \in DOMAIN la THEN la[r.id] ELSE 0]]]

AllAllocs(QQ) == UNION {DOMAIN QQ[q].allocs : q \in DOMAIN QQ}
AllocOf(QQ, a) == LET q == CHOOSE q \in DOMAIN QQ : a \in DOMAIN QQ[q].allocs IN QQ[q].allocs[a]
QueueOfAlloc(QQ, a) == CHOOSE q \in DOMAIN QQ : a \in DOMAIN QQ[q].allocs
CallsFor(e, q) == {i \in DOMAIN e.calls : e.calls[i].q = q}
DemandOf(e, q) ==
  LET S == {d \in SSet(e.demand) : d.q = q} IN
  IF S = {} THEN [sn |-> 0, mn_allocs |-> 0, mn_per |-> 0, q |-> q] ELSE CHOOSE d \in S : TRUE
DemandAllOf(e, q) ==
  LET S == {d \in SSet(e.demand_all) : d.q = q} IN
  IF S = {} THEN [sn |-> 0, mn_allocs |-> 0, mn_per |-> 0, q |-> q] ELSE CHOOSE d \in S : TRUE
HasDemand(d) == d.sn > 0 \/ d.mn_allocs > 0
\* can some waiting task run on a worker of queue q ?  tasks = <<small, big, long, multi-node, gpu>>
\* What the workers of a queue look like is known from the first worker that connected from one of its allocations
\* (knownRes; the real workers have 2 cpus and nothing else); before that it is what the queue's command line says, where
\* an unmentioned resource may be there in any amount.
SomeTaskFits(e, q) ==
  \/ e.tasks[1] > 0
  \/ e.tasks[2] > 0 /\ ~(\E c \in SSet(cfg) : c.id = q /\ c.has_descriptor) /\ q \notin knownRes
  \/ e.tasks[4] > 0
  \/ e.tasks[5] > 0 /\ q \notin knownRes
SortedQueued(q) == SetToSeq(QueuedOf(q))

CountEv(e, k, a) == Cardinality({i \in DOMAIN e.ev : e.ev[i].k = k /\ e.ev[i].a = a})
EvAllocs(e) == {e.ev[i].a : i \in {i \in DOMAIN e.ev : e.ev[i].k \in {"AllocationStarted", "AllocationFinished", "AllocationQueued"}}}

StepViol(e, Q2) ==
  \* ---- C17
  (IF BacklogBound(Q2) THEN {} ELSE {"C17_BacklogBound"}) \cup
  (IF WorkerBound(Q2) THEN {} ELSE {"C17_WorkerBound"}) \cup
  (IF AllocSize(Q2) THEN {} ELSE {"C17_AllocSize"}) \cup
  (IF BackoffCoversFailures(Q2) THEN {} ELSE {"C17_BackoffCoversFailures"}) \cup
  (IF \A i \in DOMAIN e.calls : e.a = "Submits" /\ e.calls[i].q \in DOMAIN Q /\ Q[e.calls[i].q].active /\ e.calls[i].workers >= 1
                                  /\ e.calls[i].workers <= Q[e.calls[i].q].maxPer
   THEN {} ELSE {"C17_NoSubmitWhenPaused"}) \cup
  (IF \A i \in DOMAIN e.calls : e.calls[i].q \in DOMAIN Q => ~OverLimit(Q[e.calls[i].q].lim) THEN {} ELSE {"C17_SilentAfterTooManyFailures"}) \cup
  (IF \A i \in DOMAIN e.calls : HasDemand(DemandOf(e, e.calls[i].q)) /\ SomeTaskFits(e, e.calls[i].q) THEN {} ELSE {"C17_NoSubmitWithoutDemand"}) \cup
  (IF \A i \in DOMAIN e.calls : e.calls[i].q \in DOMAIN Q => BackoffElapsed(Q[e.calls[i].q].lim, now) THEN {} ELSE {"C17_BackoffRespected"}) \cup
  (IF e.a = "Submits" /\ \E q \in DOMAIN Q2 : OverLimit(Q2[q].lim) /\ Q2[q].active /\ ~(q \in DOMAIN resumedOver /\ resumedOver[q]) /\ Q[q].active
   THEN {"C17_PausedAfterTooManyFailures"} ELSE {}) \cup
  \* a tick with demand, room and elapsed back-off attempts a submission (also for a queue resumed after an automatic pause)
  (IF e.a = "Submits" /\ e.args.ok /\ \E q \in DOMAIN Q :
        /\ Q[q].active /\ (~OverLimit(Q[q].lim) \/ (q \in DOMAIN resumedOver /\ resumedOver[q]))
        /\ HasSpace(Q[q]) /\ BackoffElapsed(Q[q].lim, now)
        /\ Permit(Q[q], IF OverLimit(Q[q].lim) THEN DemandAllOf(e, q) ELSE DemandOf(e, q), SortedQueued(Q[q])) # <<>>
        /\ (OverLimit(Q[q].lim) => SomeTaskFits(e, q))
        /\ CallsFor(e, q) = {}
   THEN {"C17_ResumedQueueSubmitsAgain"} ELSE {}) \cup
  \* ---- C18
  (IF \A a \in AllAllocs(Q) \cap AllAllocs(Q2) :
        /\ Rank(AllocOf(Q2, a).st) >= Rank(AllocOf(Q, a).st)
        /\ Rank(AllocOf(Q, a).st) = 2 => AllocOf(Q2, a).st = AllocOf(Q, a).st
        /\ AllocOf(Q2, a).target = AllocOf(Q, a).target
   THEN {} ELSE {"C18_Monotone"}) \cup
  (IF \A a \in EvAllocs(e) :
        /\ (IF a \in DOMAIN startedEv THEN startedEv[a] ELSE 0) + CountEv(e, "AllocationStarted", a) <= 1
        /\ (IF a \in DOMAIN finishedEv THEN finishedEv[a] ELSE 0) + CountEv(e, "AllocationFinished", a) <= 1
        /\ ~(CountEv(e, "AllocationStarted", a) > 0 /\ a \in DOMAIN finishedEv /\ finishedEv[a] > 0)
   THEN {} ELSE {"C18_StartAtMostOnceEndOnce"}) \cup
  (IF \A a \in AllAllocs(Q2) :
        (Rank(AllocOf(Q2, a).st) = 2) <=> ((IF a \in DOMAIN finishedEv THEN finishedEv[a] ELSE 0) + CountEv(e, "AllocationFinished", a) = 1)
   THEN {} ELSE {"C18_EndAnnouncedExactlyWhenFinished"}) \cup
  (IF RunningShape(Q2) /\ FinishedShape(Q2) THEN {} ELSE {"C18_FinishesExactlyWhenAllWorkersLost"}) \cup
  (IF \A a \in AllAllocs(Q2) : AllocOf(Q2, a).st = "Running" =>
        LET ce == (IF a \in DOMAIN connEver THEN connEver[a] ELSE {}) \cup (IF e.a = "WorkerConnected" /\ e.args.alloc = a THEN {e.args.w} ELSE {})
            lr == (IF a \in DOMAIN lostRunning THEN lostRunning[a] ELSE {})
                    \cup (IF e.a = "WorkerLost" /\ e.args.alloc = a /\ a \in AllAllocs(Q) /\ AllocOf(Q, a).st = "Running" THEN {e.args.w} ELSE {})
        IN AllocOf(Q2, a).connected = ce \ lr /\ AllocOf(Q2, a).ndisc = Cardinality(lr)
   THEN {} ELSE {"C18_ConnectedWorkersExact"}) \cup
  \* "it finishes normally exactly when the number of DISTINCT workers lost from it reaches the size it was submitted with": a loss
  \* notification ends a running allocation only if the distinct workers lost so far (history, not the code's own count) make up the target
  (IF e.a = "WorkerLost" /\ e.args.known /\ e.args.alloc \in AllAllocs(Q) /\ e.args.alloc \in AllAllocs(Q2)
        /\ AllocOf(Q, e.args.alloc).st = "Running" /\ Rank(AllocOf(Q2, e.args.alloc).st) = 2
        /\ Cardinality((IF e.args.alloc \in DOMAIN lostRunning THEN lostRunning[e.args.alloc] ELSE {}) \cup {e.args.w}) # AllocOf(Q, e.args.alloc).target
   THEN {"C18_FinishesOnlyWhenDistinctLostReachSize"} ELSE {}) \cup
  (IF e.a \in {"WorkerConnected", "WorkerLost"} /\ ~e.args.known /\ (Q2 # Q \/ e.ev # <<>>) THEN {"C18_UnknownAllocationIgnored"} ELSE {}) \cup
  (IF e.a = "RemoveQueue" THEN
      (IF e.args.q \in DOMAIN Q THEN
         LET q == Q[e.args.q]  running == \E a \in DOMAIN q.allocs : q.allocs[a].st = "Running" IN
         IF e.args.ok THEN
            (IF /\ e.args.q \notin DOMAIN Q2
                /\ Len(e.removes) = Cardinality(ActiveOf(q)) /\ SSet(e.removes) = ActiveOf(q)
                /\ (e.args.force \/ ~running)
             THEN {} ELSE {"C18_RemoveCancelsEachActiveOnce"})
         ELSE (IF Q2 = Q /\ e.removes = <<>> /\ running /\ ~e.args.force THEN {} ELSE {"C18_RemoveRefusedWithoutEffect"})
       ELSE (IF ~e.args.ok /\ Q2 = Q THEN {} ELSE {"C18_RemoveRefusedWithoutEffect"}))
   ELSE (IF e.removes = <<>> THEN {} ELSE {"C18_RemoveCancelsEachActiveOnce"})) \cup
  \* ---- conformance with the model's transition functions (diagnostic only)
  (IF e.a = "WorkerConnected" /\ e.args.known /\ e.args.alloc \in AllAllocs(Q) /\ e.args.alloc \in AllAllocs(Q2)
        /\ AllocOf(Q2, e.args.alloc) # OnConnect(AllocOf(Q, e.args.alloc), e.args.w,
                                                 IF e.args.alloc \in DOMAIN lostRunning THEN lostRunning[e.args.alloc] ELSE {})[1]
   THEN {"AUX_ConnectAsModel"} ELSE {}) \cup
  (IF e.a = "Submits" /\ \E q \in DOMAIN Q : Q[q].active /\ ~OverLimit(Q[q].lim) /\ BackoffElapsed(Q[q].lim, now) /\
        LET p == Permit(Q[q], DemandOf(e, q), SortedQueued(Q[q]))
            cs == SetToSortSeq(CallsFor(e, q), LAMBDA a, b : a < b) IN
        \* the calls are a prefix of the permit (the rest is abandoned after a failed submission)
        ~(Len(cs) <= Len(p) /\ \A i \in DOMAIN cs : e.calls[cs[i]].workers = p[i])
   THEN {"AUX_PermitAsModel"} ELSE {})

V(n, e) == [p |-> n, run |-> e.run, i |-> e.i, a |-> e.a]

TraceInit ==
  /\ l = 1 /\ viol = {} /\ Q = <<>> /\ now = 0 /\ cfg = <<>> /\ lastAttempt = <<>> /\ startedEv = <<>> /\ finishedEv = <<>>
  /\ connEver = <<>> /\ lostRunning = <<>> /\ resumedOver = <<>> /\ knownRes = {} /\ alive = FALSE

Bump(f, S) == [x \in DOMAIN f \cup S |-> (IF x \in DOMAIN f THEN f[x] ELSE 0) + (IF x \in S THEN 1 ELSE 0)]
AddTo(f, k, v) == [x \in DOMAIN f \cup {k} |-> (IF x \in DOMAIN f THEN f[x] ELSE {}) \cup (IF x = k THEN {v} ELSE {})]

TraceNext ==
  /\ l <= Len(Rec)
  /\ l' = l + 1
  /\ LET e == Rec[l] IN
     IF e.a = "Reset" THEN
        /\ alive' = TRUE /\ now' = 0 /\ cfg' = e.args.queues /\ lastAttempt' = <<>> /\ startedEv' = <<>> /\ finishedEv' = <<>>
        /\ connEver' = <<>> /\ lostRunning' = <<>> /\ resumedOver' = <<>> /\ knownRes' = {} /\ viol' = viol
        /\ Q' = QOf(e.st, <<>>)
     ELSE IF ~alive THEN UNCHANGED <<viol, Q, now, cfg, lastAttempt, startedEv, finishedEv, connEver, lostRunning, resumedOver, knownRes, alive>>
     ELSE IF e.pan = 1 THEN
        /\ alive' = FALSE /\ viol' = viol \cup {V("C17_NoPanic", e)}
        /\ UNCHANGED <<Q, now, cfg, lastAttempt, startedEv, finishedEv, connEver, lostRunning, resumedOver, knownRes>>
     ELSE
        /\ alive' = alive /\ cfg' = cfg
        /\ now' = e.now
        /\ lastAttempt' = [q \in DOMAIN lastAttempt \cup {e.calls[i].q : i \in DOMAIN e.calls} |->
                             IF \E i \in DOMAIN e.calls : e.calls[i].q = q THEN now ELSE lastAttempt[q]]
        /\ Q' = QOf(e.st, lastAttempt')
        /\ startedEv' = Bump(startedEv, {e.ev[i].a : i \in {i \in DOMAIN e.ev : e.ev[i].k = "AllocationStarted"}})
        /\ finishedEv' = Bump(finishedEv, {e.ev[i].a : i \in {i \in DOMAIN e.ev : e.ev[i].k = "AllocationFinished"}})
        /\ connEver' = IF e.a = "WorkerConnected" /\ e.args.known /\ e.args.alloc \in AllAllocs(Q) /\ Rank(AllocOf(Q, e.args.alloc).st) < 2
                       THEN AddTo(connEver, e.args.alloc, e.args.w) ELSE connEver
        /\ knownRes' = IF e.a = "WorkerConnected" /\ e.args.known /\ e.args.alloc \in AllAllocs(Q)
                       THEN knownRes \cup {QueueOfAlloc(Q, e.args.alloc)} ELSE knownRes
        /\ lostRunning' = IF e.a = "WorkerLost" /\ e.args.known /\ e.args.alloc \in AllAllocs(Q) /\ AllocOf(Q, e.args.alloc).st = "Running"
                          THEN AddTo(lostRunning, e.args.alloc, e.args.w) ELSE lostRunning
        /\ resumedOver' = [q \in DOMAIN Q' |->
                             IF e.a = "Resume" /\ e.args.q = q /\ q \in DOMAIN Q /\ ~Q[q].active /\ OverLimit(Q[q].lim) THEN TRUE
                             ELSE IF ~OverLimit(Q'[q].lim) THEN FALSE
                             ELSE (q \in DOMAIN resumedOver /\ resumedOver[q])]
        /\ viol' = viol \cup {V(n, e) : n \in StepViol(e, Q')}

TraceSpec == TraceInit /\ [][TraceNext]_<<l, viol, Q, now, cfg, lastAttempt, startedEv, finishedEv, connEver, lostRunning, resumedOver, knownRes, alive>>
TraceAccepted ==
  LET d == TLCGet("stats").diameter IN
  /\ PrintT(<<"VERDICT", ToJson([lines |-> Len(Rec), diameter |-> d])>>)
  /\ d - 1 = Len(Rec)
AtEnd == l = Len(Rec) + 1 => PrintT(<<"VIOL", ToJson(viol)>>)
=============================================================================
