---------------------------- MODULE StreamTrace ----------------------------
(* Read-backs of the REAL OutputLog over stream files written by the REAL stream writer (`hqv stream`), judged by Stream.tla *)
EXTENDS Stream, Json, IOUtils

VARIABLES l, viol
Rec == ndJsonDeserialize(IOEnv.TRACE)

\* o: one observation [execs, read, open_err, pan] - the final read-back of a run or the read-back after one of its steps
ObsViol(o) ==
  IF o.pan = 1 THEN {"C19_ReaderPanics"}
  ELSE IF o.open_err # "" THEN
     (IF \E i \in DOMAIN o.execs : o.execs[i].end \in {"finished", "failed"} THEN {"C19_DirectoryReadable"} ELSE {})
  ELSE UNION {
     IF ~Decided(o.execs, o.read[i].task) THEN {}
     ELSE (IF ExactBytes(o.execs, o.read[i]) THEN {} ELSE {"C19_ExactBytesInOrder"}) \cup
          (IF LastRunOnly(o.execs, o.read[i]) THEN {} ELSE {"C19_OnlyLastRun"}) \cup
          (IF MarkedFinished(o.execs, o.read[i]) THEN {} ELSE {"C19_MarkedFinished"}) \cup
          (IF SupersededOk(o.execs, o.read[i]) THEN {} ELSE {"C19_SupersededReported"})
     : i \in DOMAIN o.read}

\* the promise holds from the moment an execution is reported ended: every intermediate observation is judged as well
LineViol(e) ==
  {[p |-> n, at |-> "end"] : n \in ObsViol(e)} \cup
  UNION {{[p |-> n, at |-> "step"] : n \in ObsViol(e.steps[k])} : k \in DOMAIN e.steps}

TraceInit == l = 1 /\ viol = {}
TraceNext ==
  /\ l <= Len(Rec)
  /\ l' = l + 1
  /\ viol' = viol \cup {[p |-> n.p, at |-> n.at, run |-> Rec[l].run] : n \in LineViol(Rec[l])}
TraceSpec == TraceInit /\ [][TraceNext]_<<l, viol>>
TraceAccepted ==
  LET d == TLCGet("stats").diameter IN
  /\ PrintT(<<"VERDICT", ToJson([lines |-> Len(Rec), diameter |-> d])>>)
  /\ d - 1 = Len(Rec)
AtEnd == l = Len(Rec) + 1 => PrintT(<<"VIOL", ToJson(viol)>>)
=============================================================================
