---------------------------- MODULE StreamTrace ----------------------------
(* Read-backs of the REAL OutputLog over stream files written by the REAL stream writer (`hqv stream`), judged by Stream.tla *)
EXTENDS Stream, Json, IOUtils

VARIABLES l, viol
Rec == ndJsonDeserialize(IOEnv.TRACE)

LineViol(e) ==
  IF e.pan = 1 THEN {"C19_ReaderPanics"}
  ELSE IF e.open_err # "" THEN
     (IF \E i \in DOMAIN e.execs : e.execs[i].end \in {"finished", "failed"} THEN {"C19_DirectoryReadable"} ELSE {})
  ELSE UNION {
     IF ~Decided(e.execs, e.read[i].task) THEN {}
     ELSE (IF ExactBytes(e.execs, e.read[i]) THEN {} ELSE {"C19_ExactBytesInOrder"}) \cup
          (IF LastRunOnly(e.execs, e.read[i]) THEN {} ELSE {"C19_OnlyLastRun"}) \cup
          (IF MarkedFinished(e.execs, e.read[i]) THEN {} ELSE {"C19_MarkedFinished"}) \cup
          (IF SupersededOk(e.execs, e.read[i]) THEN {} ELSE {"C19_SupersededReported"})
     : i \in DOMAIN e.read}

TraceInit == l = 1 /\ viol = {}
TraceNext ==
  /\ l <= Len(Rec)
  /\ l' = l + 1
  /\ viol' = viol \cup {[p |-> n, run |-> Rec[l].run] : n \in LineViol(Rec[l])}
TraceSpec == TraceInit /\ [][TraceNext]_<<l, viol>>
TraceAccepted ==
  LET d == TLCGet("stats").diameter IN
  /\ PrintT(<<"VERDICT", ToJson([lines |-> Len(Rec), diameter |-> d])>>)
  /\ d - 1 = Len(Rec)
AtEnd == l = Len(Rec) + 1 => PrintT(<<"VIOL", ToJson(viol)>>)
=============================================================================
