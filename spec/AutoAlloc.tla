----------------------------- MODULE AutoAlloc -----------------------------
(***************************************************************************)
(* Automatic allocation (server/autoalloc/process.rs, state.rs): the       *)
(* allocation queues, their allocations and rate limiters as a state       *)
(* machine, with the properties C17 (limits, demand, back-off, pause and   *)
(* resume) and C18 (allocation lifecycle, worker accounting).              *)
(*                                                                         *)
(* State: Q = [q -> [active, backlog, maxPer, maxW (-1 = none),            *)
(*                   allocs : [a -> [st, target, connected, ndisc, errs]], *)
(*                   lim : [level, subFails, allocFails, attempted, last]]]*)
(* st \in {"Queued","Running","Finished","FinishedUnexpectedly"}; `last`   *)
(* is the virtual time of the last submission attempt.  Every transition   *)
(* is a FUNCTION of the state and of the environment's input (demand,      *)
(* submission results, status reports, worker notifications), exactly as   *)
(* in the code, so the model can be checked exhaustively (MC_AutoAlloc)    *)
(* and compared step by step with the real code (AutoAllocTrace).          *)
(***************************************************************************)
EXTENDS Naturals, Integers, Sequences, FiniteSets, FiniteSetsExt, SequencesExt, Functions, TLC

CONSTANTS Delays, MaxSubFails, MaxAllocFails, MaxQueuedErrs, MaxRunningErrs

Rank(st) == CASE st = "Queued" -> 0 [] st = "Running" -> 1 [] OTHER -> 2
IsActiveAlloc(x) == x.st \in {"Queued", "Running"}
QueuedOf(q) == {a \in DOMAIN q.allocs : q.allocs[a].st = "Queued"}
ActiveOf(q) == {a \in DOMAIN q.allocs : IsActiveAlloc(q.allocs[a])}
SumOf(S, f(_)) == FoldSet(LAMBDA x, acc : acc + f(x), 0, S)
ActiveWorkers(q) == SumOf(ActiveOf(q), LAMBDA a : q.allocs[a].target)
HasSpace(q) == Cardinality(QueuedOf(q)) < q.backlog /\ (q.maxW < 0 \/ ActiveWorkers(q) < q.maxW)
OverLimit(l) == l.allocFails >= MaxAllocFails \/ l.subFails >= MaxSubFails
DelayOf(l) == Delays[l.level + 1]
BackoffElapsed(l, now) == ~l.attempted \/ now - l.last >= DelayOf(l)
IncLevel(l) == IF l.level < Len(Delays) - 1 THEN l.level + 1 ELSE l.level

(* compute_submission_permit: the worker counts of the allocations that may be submitted now *)
Min2(a, b) == IF a < b THEN a ELSE b
RECURSIVE Credit(_, _, _, _)
\* walk over the queued allocations (any order gives the same totals for the cases we use: sorted by id)
Credit(targets, mn, sn, mnPer) ==
  IF targets = <<>> THEN <<mn, sn>>
  ELSE LET t == Head(targets)
           useMn == mn > 0 /\ mnPer <= t
           rest == IF useMn THEN t - mnPer ELSE t
           mn2 == IF useMn THEN mn - 1 ELSE mn
           sn2 == IF sn > rest THEN sn - rest ELSE 0
       IN Credit(Tail(targets), mn2, sn2, mnPer)
RECURSIVE Clip(_, _)
Clip(wanted, remaining) ==
  IF wanted = <<>> \/ remaining = 0 THEN <<>>
  ELSE LET t == Min2(Head(wanted), remaining) IN <<t>> \o Clip(Tail(wanted), remaining - t)
Permit(q, d, order) ==
  LET remaining == IF q.maxW < 0 THEN 1000000 ELSE (IF q.maxW > ActiveWorkers(q) THEN q.maxW - ActiveWorkers(q) ELSE 0)
      targets == [i \in 1..Len(order) |-> q.allocs[order[i]].target]
      c == Credit(targets, d.mn_allocs, d.sn, d.mn_per)
      mn == c[1]  sn == c[2]
      full == sn \div q.maxPer
      rem == sn % q.maxPer
      wanted == [i \in 1..mn |-> d.mn_per] \o [i \in 1..full |-> q.maxPer] \o (IF rem # 0 THEN <<rem>> ELSE <<>>)
      room == IF q.backlog > Cardinality(QueuedOf(q)) THEN q.backlog - Cardinality(QueuedOf(q)) ELSE 0
      taken == SubSeq(wanted, 1, Min2(room, Len(wanted)))
  IN IF remaining = 0 THEN <<>> ELSE Clip(taken, remaining)

-----------------------------------------------------------------------------
(* worker notifications and status reports on one allocation x; returns <<x', outcome>>, outcome \in                 *)
(* {"none","started","ok","fail","end"} ("ok"/"fail": finished with limiter success/failure, "end": finished without *)
(* limiter update)                                                                                                  *)
\* lostSet = distinct workers already recorded as lost from x (kept by the caller)
OnConnect(x, w, lostSet) ==
  CASE x.st = "Queued" -> <<[x EXCEPT !.st = "Running", !.connected = {w}, !.ndisc = 0, !.errs = 0], "started">>
    [] x.st = "Running" -> IF w \in lostSet THEN <<x, "none">> ELSE <<[x EXCEPT !.connected = @ \cup {w}], "none">>
    [] OTHER -> <<x, "none">>
OnLost(x, w, lostSet, allCrashed) ==
  IF x.st = "Running" THEN
    LET n == Cardinality(lostSet \cup {w}) IN
    IF n = x.target THEN <<[x EXCEPT !.st = "Finished", !.connected = {}, !.ndisc = n, !.errs = 0], IF allCrashed THEN "fail" ELSE "ok">>
    ELSE <<[x EXCEPT !.connected = @ \ {w}, !.ndisc = n], "none">>
  ELSE <<x, "none">>
OnStatus(x, s) ==
  CASE s = "error" ->
         IF x.st = "Queued" THEN
            (IF x.errs + 1 > MaxQueuedErrs THEN <<[x EXCEPT !.st = "FinishedUnexpectedly", !.errs = 0, !.connected = {}, !.ndisc = 0], "end">>
             ELSE <<[x EXCEPT !.errs = @ + 1], "none">>)
         ELSE IF x.st = "Running" THEN
            (IF x.errs + 1 > MaxRunningErrs THEN <<[x EXCEPT !.st = "FinishedUnexpectedly", !.errs = 0], "end">>
             ELSE <<[x EXCEPT !.errs = @ + 1], "none">>)
         ELSE <<x, "none">>
    [] s \in {"queued"} -> <<x, "none">>
    [] s = "running" -> IF x.st = "Queued" THEN <<[x EXCEPT !.st = "Running", !.connected = {}, !.ndisc = 0, !.errs = 0], "none">> ELSE <<x, "none">>
    [] s \in {"finished", "failed", "missing"} ->
         IF IsActiveAlloc(x) THEN <<[x EXCEPT !.st = "FinishedUnexpectedly", !.errs = 0, !.connected = IF x.st = "Queued" THEN {} ELSE @,
                                               !.ndisc = IF x.st = "Queued" THEN 0 ELSE @],
                                    IF s = "finished" THEN "ok" ELSE "fail">>
         ELSE <<x, "none">>
    [] OTHER -> <<x, "none">>
LimAfter(l, outcome) ==
  CASE outcome = "ok" -> [l EXCEPT !.allocFails = 0, !.level = 0]
    [] outcome = "fail" -> [l EXCEPT !.allocFails = @ + 1, !.level = IncLevel(l)]
    [] OTHER -> l

-----------------------------------------------------------------------------
(* Properties over a state Q (C17 / C18 state parts) *)
BacklogBound(Q) == \A q \in DOMAIN Q : Cardinality(QueuedOf(Q[q])) <= Q[q].backlog
WorkerBound(Q) == \A q \in DOMAIN Q : Q[q].maxW < 0 \/ ActiveWorkers(Q[q]) <= Q[q].maxW
\* the back-off level never falls behind the number of consecutive allocation failures: a submission that the batch system
\* accepts in the middle of a series of failing allocations does not make the queue impatient again
BackoffCoversFailures(Q) == \A q \in DOMAIN Q : Q[q].lim.level >= Min2(Q[q].lim.allocFails, Len(Delays) - 1)
AllocSize(Q) == \A q \in DOMAIN Q : \A a \in DOMAIN Q[q].allocs : Q[q].allocs[a].target >= 1 /\ Q[q].allocs[a].target <= Q[q].maxPer
RunningShape(Q) ==
  \A q \in DOMAIN Q : \A a \in DOMAIN Q[q].allocs :
     Q[q].allocs[a].st = "Running" => Q[q].allocs[a].ndisc < Q[q].allocs[a].target
FinishedShape(Q) ==
  \A q \in DOMAIN Q : \A a \in DOMAIN Q[q].allocs :
     Q[q].allocs[a].st = "Finished" => Q[q].allocs[a].ndisc = Q[q].allocs[a].target
=============================================================================
