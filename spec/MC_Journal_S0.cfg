SPECIFICATION Spec
CONSTANTS
  MaxEvents = 3
  Jobs = {1}
  MaxReqs = 2
  MaxCrashes = 1
  PruneReadsBeforeFlush = FALSE
INVARIANTS TypeOK C10_DurableIsPrefix C10_NothingLostOnTheWay C10_AckedIsDurable C10_ReplayComplete C12_OnlyDeadRemoved C12_PruneAtomic
CHECK_DEADLOCK FALSE
