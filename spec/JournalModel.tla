---------------------------- MODULE JournalModel ----------------------------
(***************************************************************************)
(* The journal thread as a STATE MACHINE (C10, C12): what is "durably      *)
(* recorded" at every moment.                                              *)
(*                                                                         *)
(* Code modelled (crates/hyperqueue/src/server/event/journal):             *)
(*   stream.rs  streaming_process: the loop over EventStreamMessage        *)
(*              Event -> writer.store          (ThreadStep, "E")           *)
(*              FlushJournal -> flush + ack    (ThreadStep, "F")           *)
(*              ReplayJournal -> flush + read  (ThreadStep, "R")           *)
(*              PruneJournal -> flush, drop writer, prune into <path>.tmp, *)
(*                 rename over the journal, re-open for append, ack        *)
(*                                             (ThreadStep "P", PruneTmp,  *)
(*                                              PruneRename)               *)
(*              periodic flush                 (PeriodicFlush)             *)
(*   write.rs   JournalWriter: BufWriter (may write through: Spill),       *)
(*              create_or_append cuts a torn tail (Restart)                *)
(*   death of the server process at any point  (Crash), start with the     *)
(*              same journal                    (Restart)                  *)
(*                                                                         *)
(* An event is [id, job]; job = 0 for records that belong to no job.       *)
(* Pruning keeps the records of live jobs and the records of no job        *)
(* (the precise rule of prune_journal is the subject of Journal.tla /      *)
(* C12; here only its place in the protocol matters).                      *)
(***************************************************************************)
EXTENDS Naturals, Sequences, FiniteSets, SequencesExt, TLC

CONSTANTS MaxEvents, Jobs, MaxReqs, MaxCrashes,
          PruneReadsBeforeFlush   \* FALSE = the code; TRUE = the (wrong) variant that opens the reader before flushing the writer

VARIABLES emitted,   \* Seq(event): the logical history (what the server state reflects)
          chan,      \* Seq(message) to the thread
          buf,       \* Seq(event) stored in the writer, not in the file yet
          file,      \* Seq(event) in the journal file
          torn,      \* BOOLEAN: the file ends with a partially written record
          tmp,       \* Seq(event): contents of <journal>.tmp (garbage unless a prune is in progress)
          pc,        \* "idle" | "prune_tmp" (writer flushed and dropped, .tmp not complete) | "prune_rename" (.tmp complete)
          cur,       \* the PruneJournal message being processed
          acked,     \* ids of answered requests
          replies,   \* [request id -> [got, expected]] for ReplayJournal
          removed,   \* ids of events removed by completed prunes
          before,    \* [request id -> ids of the events emitted before the request was made]
          nreq, crashes, alive

vars == <<emitted, chan, buf, file, torn, tmp, pc, cur, acked, replies, removed, before, nreq, crashes, alive>>

Ids(s) == {s[i].id : i \in DOMAIN s}
Logical == SelectSeq(emitted, LAMBDA e : e.id \notin removed)
ChanEvents == LET es == SelectSeq(chan, LAMBDA m : m.k = "E") IN [i \in DOMAIN es |-> es[i].e]
PruneOf(s, live) == SelectSeq(s, LAMBDA e : e.job = 0 \/ e.job \in live)

Init ==
  /\ emitted = <<>> /\ chan = <<>> /\ buf = <<>> /\ file = <<>> /\ torn = FALSE /\ tmp = <<>> /\ pc = "idle" /\ cur = <<>>
  /\ acked = {} /\ replies = <<>> /\ removed = {} /\ before = <<>> /\ nreq = 0 /\ crashes = 0 /\ alive = TRUE

-----------------------------------------------------------------------------
\* server side
Emit(j) ==
  /\ alive /\ Len(emitted) < MaxEvents
  /\ LET e == [id |-> Len(emitted) + Cardinality(removed) + 1 + 100 * crashes, job |-> j] IN
     /\ emitted' = Append(emitted, e)
     /\ chan' = Append(chan, [k |-> "E", e |-> e])
  /\ UNCHANGED <<buf, file, torn, tmp, pc, cur, acked, replies, removed, before, nreq, crashes, alive>>

Request(kind, live) ==
  /\ alive /\ nreq < MaxReqs
  /\ nreq' = nreq + 1
  /\ chan' = Append(chan, [k |-> kind, id |-> nreq + 1, live |-> live])
  /\ before' = (nreq + 1 :> Ids(emitted)) @@ before
  /\ UNCHANGED <<emitted, buf, file, torn, tmp, pc, cur, acked, replies, removed, crashes, alive>>

-----------------------------------------------------------------------------
\* the thread
ThreadStep ==
  /\ alive /\ pc = "idle" /\ chan # <<>>
  /\ LET m == Head(chan) IN
     /\ chan' = Tail(chan)
     /\ CASE m.k = "E" ->
               /\ buf' = Append(buf, m.e)
               /\ UNCHANGED <<file, torn, tmp, pc, cur, acked, replies>>
          [] m.k = "F" ->
               /\ file' = file \o buf /\ buf' = <<>> /\ torn' = FALSE
               /\ acked' = acked \cup {m.id}
               /\ UNCHANGED <<tmp, pc, cur, replies>>
          [] m.k = "R" ->
               /\ file' = file \o buf /\ buf' = <<>> /\ torn' = FALSE
               /\ replies' = (m.id :> [got |-> file \o buf,
                                        expected |-> SelectSeq(Logical, LAMBDA e : e.id \in before[m.id])]) @@ replies
               /\ acked' = acked \cup {m.id}
               /\ UNCHANGED <<tmp, pc, cur>>
          [] m.k = "P" ->
               \* flush, drop the writer; the reader of the prune sees the file as it is then
               /\ IF PruneReadsBeforeFlush
                  THEN tmp' = PruneOf(file, m.live)          \* (wrong) reader opened first: its length is sampled before the flush
                  ELSE tmp' = <<>>
               /\ file' = file \o buf /\ buf' = <<>> /\ torn' = FALSE
               /\ pc' = "prune_tmp" /\ cur' = m
               /\ UNCHANGED <<acked, replies>>
  /\ UNCHANGED <<emitted, removed, before, nreq, crashes, alive>>

PruneTmp ==
  /\ alive /\ pc = "prune_tmp"
  /\ tmp' = IF PruneReadsBeforeFlush THEN tmp ELSE PruneOf(file, cur.live)
  /\ pc' = "prune_rename"
  /\ UNCHANGED <<emitted, chan, buf, file, torn, cur, acked, replies, removed, before, nreq, crashes, alive>>

\* rename is atomic; the writer is re-opened for append and the request answered
PruneRename ==
  /\ alive /\ pc = "prune_rename"
  /\ file' = tmp /\ tmp' = <<>> /\ pc' = "idle" /\ cur' = <<>>
  /\ removed' = removed \cup (Ids(file) \ Ids(tmp))
  /\ acked' = acked \cup {cur.id}
  /\ UNCHANGED <<emitted, chan, buf, torn, replies, before, nreq, crashes, alive>>

PeriodicFlush ==
  /\ alive /\ pc = "idle" /\ buf # <<>>
  /\ file' = file \o buf /\ buf' = <<>> /\ torn' = FALSE
  /\ UNCHANGED <<emitted, chan, tmp, pc, cur, acked, replies, removed, before, nreq, crashes, alive>>

\* the buffered writer writes through: k whole records, and possibly a part of the next one
Spill ==
  /\ alive /\ pc = "idle" /\ buf # <<>>
  /\ \E k \in 0 .. Len(buf), t \in BOOLEAN :
       /\ (k < Len(buf) \/ ~t) /\ (k > 0 \/ (t /\ ~torn))
       /\ file' = file \o SubSeq(buf, 1, k)
       /\ buf' = SubSeq(buf, k + 1, Len(buf))
       /\ torn' = t
  /\ UNCHANGED <<emitted, chan, tmp, pc, cur, acked, replies, removed, before, nreq, crashes, alive>>

-----------------------------------------------------------------------------
Crash ==
  /\ alive /\ crashes < MaxCrashes
  /\ alive' = FALSE /\ crashes' = crashes + 1
  /\ chan' = <<>> /\ buf' = <<>>
  /\ UNCHANGED <<emitted, file, torn, tmp, pc, cur, acked, replies, removed, before, nreq>>

\* start with the same journal: the torn tail is cut, a leftover .tmp is ignored, the state is what the file says
Restart ==
  /\ ~alive
  /\ alive' = TRUE /\ torn' = FALSE /\ pc' = "idle" /\ cur' = <<>> /\ tmp' = <<>>
  /\ emitted' = file
  /\ UNCHANGED <<chan, buf, file, acked, replies, removed, before, nreq, crashes>>

Next ==
  \/ \E j \in Jobs \cup {0} : Emit(j)
  \/ Request("F", {}) \/ Request("R", {}) \/ \E live \in SUBSET Jobs : Request("P", live)
  \/ ThreadStep \/ PruneTmp \/ PruneRename \/ PeriodicFlush \/ Spill \/ Crash \/ Restart

Spec == Init /\ [][Next]_vars

-----------------------------------------------------------------------------
\* What a crash can leave behind is a PREFIX of the logical history, whole records in order (plus possibly a torn one):
\* this is the crash model the journal checks use (cut at every record boundary, arbitrary byte offset in the next record).
C10_DurableIsPrefix == IsPrefix(file, Logical)
\* nothing is lost, duplicated or reordered on the way: file, writer buffer and channel together are the logical history
C10_NothingLostOnTheWay == alive => file \o buf \o ChanEvents = Logical
\* what was acknowledged (flush / prune / replay answered) stays in the file at every later crash point, unless pruned
C10_AckedIsDurable == \A r \in acked : \A e \in before[r] : e \in removed \/ e \in Ids(file)
\* a replay returns everything emitted before it was requested
C10_ReplayComplete == \A r \in DOMAIN replies : replies[r].got = replies[r].expected
\* pruning removes nothing of a job that was live at the prune (and nothing job-less)
C12_OnlyDeadRemoved == \A i \in DOMAIN emitted : emitted[i].id \in removed => emitted[i].job # 0
\* at every moment of a prune the journal file is the complete old or the complete new one
C12_PruneAtomic == pc # "idle" => buf = <<>> /\ ~torn
TypeOK == pc \in {"idle", "prune_tmp", "prune_rename"} /\ (torn => buf # <<>> \/ ~alive)
=============================================================================
