------------------------------ MODULE MC_HQSim ------------------------------
(* Behaviour export: the actions of HQModel labelled with the environment step of the harness that realises them.  *)
(* Run with `tlc -simulate`; every state prints its depth and the label of the step that led to it, the engine      *)
(* cuts the output into behaviours and replays them against the real code (`hqv cluster guided`).                  *)
EXTENDS MC_HQ, Json

VARIABLES depth, lastAct, gate
\* gate: earliest depth of the first loss / cancel / task failure (drawn at the start; without it uniform simulation
\* takes the faults first and most behaviours end before any task ran)
Gates == {0, 4, 8, 12, 16, 24, 32}

SimInit == Init /\ depth = 0 /\ lastAct = [c |-> "Init"] /\ gate \in [lose : Gates, cancel : Gates, fail : Gates]

Lab(a) == /\ depth' = depth + 1 /\ lastAct' = a /\ UNCHANGED gate

SimNext ==
  \/ \E i \in DOMAIN Menu : ClientSubmit(i) /\ Lab([c |-> "Submit", spec |-> i - 1, job |-> Menu[i].job])
  \/ \E j \in DOMAIN OpenJobs : ClientOpen(j) /\ Lab([c |-> "Open", job |-> j])
  \/ \E j \in DOMAIN OpenJobs : ClientClose(j) /\ Lab([c |-> "Close", job |-> j])
  \/ \E j \in DOMAIN job : depth >= gate.cancel /\ ClientCancel(j) /\ Lab([c |-> "Cancel", job |-> j])
  \/ Schedule /\ Lab([c |-> "Schedule"])
  \/ \E w \in DOMAIN wk : SrvRecv(w) /\ Lab([c |-> "W2S", w |-> w])
  \/ \E w \in DOMAIN wk : WkRecv(w) /\ Lab([c |-> "S2W", w |-> w])
  \/ \E f \in fut : TaskExit(f, TRUE) /\ Lab([c |-> "Exit", w |-> f.w, t |-> f.t, ok |-> TRUE])
  \/ \E f \in fut : depth >= gate.fail /\ TaskExit(f, FALSE) /\ Lab([c |-> "Exit", w |-> f.w, t |-> f.t, ok |-> FALSE])
  \/ \E t \in DOMAIN task : ArmLaunchFail(t) /\ Lab([c |-> "FailLaunch", t |-> t])
  \/ \E w \in DOMAIN srv : depth >= gate.lose /\ LoseWorker(w, TRUE) /\ Lab([c |-> "Lose", w |-> w, reason |-> "connection"])
  \/ \E w \in DOMAIN srv : depth >= gate.lose /\ LoseWorker(w, FALSE) /\ Lab([c |-> "Lose", w |-> w, reason |-> "idle"])

SimSpec == SimInit /\ [][SimNext]_<<mvars, depth, lastAct, gate>>

Emit == PrintT(<<"ACT", depth, ToJson(lastAct)>>)
=============================================================================
