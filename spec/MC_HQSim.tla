------------------------------ MODULE MC_HQSim ------------------------------
(* Behaviour export: the actions of HQModel labelled with the environment step of the harness that realises them.  *)
(* Run with `tlc -simulate`; every state prints its depth and the label of the step that led to it, the engine      *)
(* cuts the output into behaviours and replays them against the real code (`hqv cluster guided`).                  *)
EXTENDS MC_HQ, Json

VARIABLES depth, lastAct, gate, sig
\* gate: earliest depth of the first loss / cancel / task failure (drawn at the start; without it uniform simulation
\* takes the faults first and most behaviours end before any task ran)
Gates == {0, 4, 8, 12, 16, 24, 32}

SimInit == Init /\ depth = 0 /\ lastAct = [c |-> "Init"] /\ gate \in [lose : Gates, cancel : Gates, fail : Gates] /\ sig = <<"Init">>

Lab(a) == /\ depth' = depth + 1 /\ lastAct' = a /\ UNCHANGED gate

(* Abstract signature of a step: the kind of step and the situation of every task / worker it touches BEFORE the step   *)
(* (core state of the task, whether a redirect exists and whether it points back to the same worker, whether the worker *)
(* still has it, ...).  The engine keeps, from thousands of simulated behaviours, those that together cover every       *)
(* signature several times, and replays them on the real code: one implementation test per kind of model transition.   *)
TS(t) == IF t \in DOMAIN task THEN <<task[t].st, t \in DOMAIN redirect, t \in DOMAIN redirect /\ redirect[t].w = task[t].w>> ELSE <<"gone", FALSE, FALSE>>
Bag(TT, f(_)) == [x \in {f(t) : t \in TT} |-> Cardinality({t \in TT : f(t) = x})]
WS(w, t) == IF t \in wk[w].backlog THEN "backlog" ELSE IF t \in RunningTids(w) THEN "running" ELSE "gone"
SigW2S(w) ==
  LET m == Head(wk[w].w2s) IN
  IF m.k = "WStop" THEN <<"WStop">>
  ELSE IF m.k = "Update"
  THEN <<"Update", [i \in DOMAIN m.ups |-> IF m.ups[i].k = "Enable" THEN <<"Enable">>
                                            ELSE <<m.ups[i].k, TS(m.ups[i].t), m.ups[i].t \in DOMAIN task /\ task[m.ups[i].t].w = w>>]>>
  ELSE <<"RetractResponse", Bag(SeqSet(m.ids), TS), Len(m.ids)>>
SigS2W(w) ==
  LET m == Head(wk[w].s2w) IN
  CASE m.k = "Compute" -> <<"Compute", [i \in DOMAIN m.tasks |-> <<m.tasks[i].v >= 0, m.tasks[i].t \in armedFail>>], wk[w].backlog # {}, wk[w].running # {}>>
    [] m.k = "Retract" -> <<"Retract", Bag(SeqSet(m.ids), LAMBDA t : WS(w, t))>>
    [] m.k = "Cancel" -> <<"Cancel", Bag(SeqSet(m.ids), LAMBDA t : WS(w, t)), wk[w].backlog # {}, wk[w].blocked # {}>>
    [] OTHER -> <<m.k>>
SigLose(w, fail) ==
  <<fail, srv[w].kind, Bag(srv[w].assigned, TS), Bag(srv[w].prefilled, TS),
    Bag({t \in DOMAIN task : task[t].st = "R" /\ task[t].w = w}, TS),
    Cardinality({t \in srv[w].assigned \cap DOMAIN task : task[t].st = "X" /\ tinfo[t].climit # 0 /\ (tinfo[t].climit = -1 \/ task[t].crash + 1 >= tinfo[t].climit)})>>
SigSchedule ==
  <<Bag({t \in DOMAIN task \cap DOMAIN task' : task[t] # task'[t]},
        LAMBDA t : <<task[t].st, task'[t].st, task[t].w # 0 /\ (task'[t].w = task[t].w \/ (t \in DOMAIN redirect' /\ redirect'[t].w = task[t].w))>>)>>
SigExit(f, ok) == <<ok, wk[f.w].backlog # {}, wk[f.w].blocked # {}, Cardinality(wk[f.w].running)>>
SigSubmit(i) ==
  <<\E rq \in DOMAIN queue : queue[rq].hasPrefill /\ \E k \in DOMAIN Menu[i].tasks : Menu[i].tasks[k].prio > queue[rq].pprio,
    \E rq \in DOMAIN queue : queue[rq].ready # {}>>

SimNext ==
  \/ \E i \in DOMAIN Menu : ClientSubmit(i) /\ Lab([c |-> "Submit", spec |-> i - 1, job |-> Menu[i].job]) /\ sig' = <<"Submit", SigSubmit(i)>>
  \/ \E j \in DOMAIN OpenJobs : ClientOpen(j) /\ Lab([c |-> "Open", job |-> j]) /\ sig' = <<"Open">>
  \/ \E j \in DOMAIN OpenJobs : ClientClose(j) /\ Lab([c |-> "Close", job |-> j]) /\ sig' = <<"Close", NonTerminal(job[j]) = {}>>
  \/ \E j \in DOMAIN job : depth >= gate.cancel /\ ClientCancel(j) /\ Lab([c |-> "Cancel", job |-> j]) /\ sig' = <<"Cancel", Bag(NonTerminal(job[j]), TS)>>
  \/ Schedule /\ Lab([c |-> "Schedule"]) /\ sig' = <<"Schedule", SigSchedule>>
  \/ \E w \in DOMAIN wk : SrvRecv(w) /\ Lab([c |-> "W2S", w |-> w]) /\ sig' = <<"W2S", SigW2S(w)>>
  \/ \E w \in DOMAIN wk : SrvRecvStop(w) /\ Lab([c |-> "W2S", w |-> w]) /\ sig' = <<"W2S", <<"WStop", SigLose(w, FALSE)>>>>
  \/ TimeTick /\ Lab([c |-> "Tick"]) /\ sig' = <<"Tick", [w \in DOMAIN wk |-> <<wk[w].remaining, wk[w].backlog # {}, wk[w].running # {}>>]>>
  \/ \E w \in DOMAIN wk : WkRecv(w) /\ Lab([c |-> "S2W", w |-> w]) /\ sig' = <<"S2W", SigS2W(w)>>
  \/ \E f \in fut : TaskExit(f, TRUE) /\ Lab([c |-> "Exit", w |-> f.w, t |-> f.t, ok |-> TRUE]) /\ sig' = <<"Exit", SigExit(f, TRUE)>>
  \/ \E f \in fut : depth >= gate.fail /\ TaskExit(f, FALSE) /\ Lab([c |-> "Exit", w |-> f.w, t |-> f.t, ok |-> FALSE]) /\ sig' = <<"Exit", SigExit(f, FALSE)>>
  \/ \E t \in DOMAIN task : ArmLaunchFail(t) /\ Lab([c |-> "FailLaunch", t |-> t]) /\ sig' = <<"FailLaunch">>
  \/ \E w \in DOMAIN srv : depth >= gate.lose /\ LoseWorker(w, TRUE) /\ Lab([c |-> "Lose", w |-> w, reason |-> "connection"]) /\ sig' = <<"Lose", SigLose(w, TRUE)>>
  \/ \E w \in DOMAIN srv : depth >= gate.lose /\ LoseWorker(w, FALSE) /\ Lab([c |-> "Lose", w |-> w, reason |-> "idle"]) /\ sig' = <<"Lose", SigLose(w, FALSE)>>
  \/ ConnectWorker /\ Lab([c |-> "Connect", w |-> LateSeq[Len(LateSeq) - budget.connects + 1]])
       /\ sig' = <<"Connect", Bag(DOMAIN task, TS), [w \in DOMAIN srv |-> <<srv[w].assigned # {}, srv[w].prefilled # {}>>]>>
  \/ \E w \in DOMAIN wk : \E x \in Dying(w) : TaskDie(w, x) /\ Lab([c |-> "Die", w |-> w, t |-> x.t])
       /\ sig' = <<"Die", wk[w].blocked # {}, wk[w].backlog # {}, Cardinality(wk[w].running)>>

SimSpec == SimInit /\ [][SimNext]_<<mvars, depth, lastAct, gate, sig>>

Emit == PrintT(<<"ACT", depth, ToJson(lastAct)>>)
=============================================================================
