//! Systematic exploration of the real worker resource allocator (tako ResourceAllocator):
//! all sequences of try_allocate / release over a request alphabet up to a depth bound, de-duplicated
//! on the (canonical) free state + live grants; every distinct transition is logged once.

use std::collections::{BTreeSet, VecDeque};
use std::io::Write;

use serde_json::{Value, json};
use tako::resources::{
    ResourceDescriptor, ResourceDescriptorCoupling, ResourceDescriptorCouplingItem,
    ResourceDescriptorItem, ResourceDescriptorKind, ResourceIndex,
};
use tako::verif::{SimAllocator, SimRequest};

use crate::panics;
use crate::walk::Rng;

struct Config {
    name: &'static str,
    desc: ResourceDescriptor,
    /// resource names by id
    names: Vec<&'static str>,
    requests: Vec<SimRequest>,
    coupled: bool,
}

fn groups(name: &str, sizes: &[u32]) -> ResourceDescriptorItem {
    let mut i = 0;
    let gs: Vec<Vec<ResourceIndex>> = sizes
        .iter()
        .map(|s| {
            (0..*s)
                .map(|_| {
                    i += 1;
                    ResourceIndex::new(i - 1)
                })
                .collect()
        })
        .collect();
    ResourceDescriptorItem {
        name: name.to_string(),
        kind: ResourceDescriptorKind::groups_numeric(gs).unwrap(),
    }
}

fn rq(entries: &[(&str, &str, u64)]) -> SimRequest {
    entries.iter().map(|(n, p, a)| (n.to_string(), p.to_string(), *a)).collect()
}

const POLICIES: &[&str] = &["compact", "compact!", "tight", "tight!", "scatter"];

fn grouped_requests(name: &str, amounts: &[u64]) -> Vec<SimRequest> {
    let mut v = Vec::new();
    for p in POLICIES {
        for a in amounts {
            v.push(rq(&[(name, p, *a)]));
        }
    }
    v.push(rq(&[(name, "all", 0)]));
    v
}

fn configs(thorough: bool) -> Vec<Config> {
    let fr: &[u64] = if thorough {
        &[2_500, 5_000, 7_500, 10_000, 15_000, 17_500, 20_000, 25_000, 30_000, 40_000]
    } else {
        &[5_000, 7_500, 10_000, 15_000, 20_000, 25_000, 30_000]
    };
    let mut out = vec![
        Config {
            name: "list4",
            desc: ResourceDescriptor::new(vec![ResourceDescriptorItem::range("cpus", 0, 3)], Default::default()),
            names: vec!["cpus"],
            requests: {
                let mut v: Vec<SimRequest> = fr.iter().map(|a| rq(&[("cpus", "compact", *a)])).collect();
                v.push(rq(&[("cpus", "scatter", 15_000)]));
                v.push(rq(&[("cpus", "tight!", 5_000)]));
                v.push(rq(&[("cpus", "all", 0)]));
                v
            },
            coupled: false,
        },
        Config {
            name: "groups2x2",
            desc: ResourceDescriptor::new(vec![groups("cpus", &[2, 2])], Default::default()),
            names: vec!["cpus"],
            requests: grouped_requests("cpus", fr),
            coupled: false,
        },
        Config {
            name: "groups321",
            desc: ResourceDescriptor::new(vec![groups("cpus", &[3, 2, 1])], Default::default()),
            names: vec!["cpus"],
            requests: grouped_requests("cpus", fr),
            coupled: false,
        },
        Config {
            name: "mixed",
            desc: ResourceDescriptor::new(
                vec![groups("cpus", &[2, 2]), ResourceDescriptorItem::range("gpus", 0, 1), ResourceDescriptorItem::sum("mem", 4)],
                Default::default(),
            ),
            names: vec!["cpus", "gpus", "mem"],
            requests: vec![
                rq(&[("cpus", "compact", 10_000), ("gpus", "compact", 5_000)]),
                rq(&[("cpus", "compact", 20_000), ("mem", "compact", 15_000)]),
                rq(&[("cpus", "tight!", 15_000), ("gpus", "compact", 10_000), ("mem", "compact", 10_000)]),
                rq(&[("cpus", "scatter", 20_000), ("mem", "compact", 25_000)]),
                rq(&[("gpus", "compact", 15_000)]),
                rq(&[("mem", "compact", 5_000)]),
                rq(&[("mem", "all", 0)]),
                rq(&[("cpus", "all", 0), ("gpus", "compact", 10_000)]),
                rq(&[("cpus", "compact!", 20_000)]),
                rq(&[("cpus", "compact", 5_000)]),
            ],
            coupled: false,
        },
        Config {
            name: "coupled",
            desc: ResourceDescriptor::new(
                vec![groups("cpus", &[2, 2]), groups("gpus", &[1, 1])],
                ResourceDescriptorCoupling {
                    weights: vec![
                        ResourceDescriptorCouplingItem { resource1_idx: 0, group1_idx: 0.into(), resource2_idx: 1, group2_idx: 0.into(), weight: 256 },
                        ResourceDescriptorCouplingItem { resource1_idx: 0, group1_idx: 1.into(), resource2_idx: 1, group2_idx: 1.into(), weight: 256 },
                    ],
                },
            ),
            names: vec!["cpus", "gpus"],
            requests: vec![
                rq(&[("cpus", "compact", 10_000), ("gpus", "compact", 10_000)]),
                rq(&[("cpus", "compact!", 20_000), ("gpus", "compact!", 10_000)]),
                rq(&[("cpus", "tight", 15_000), ("gpus", "tight", 5_000)]),
                rq(&[("cpus", "compact", 30_000), ("gpus", "compact", 20_000)]),
                rq(&[("cpus", "scatter", 20_000)]),
                rq(&[("gpus", "compact", 5_000)]),
                rq(&[("cpus", "compact!", 10_000)]),
            ],
            coupled: true,
        },
    ];
    // two grouped resources, requests mixing strict and non-strict entries in both orders
    out.push(Config {
        name: "twogrouped",
        desc: ResourceDescriptor::new(vec![groups("cpus", &[2, 2, 2]), groups("gpus", &[2, 2])], Default::default()),
        names: vec!["cpus", "gpus"],
        requests: vec![
            rq(&[("cpus", "compact!", 20_000), ("gpus", "compact", 10_000)]),
            rq(&[("cpus", "compact", 20_000), ("gpus", "compact!", 20_000)]),
            rq(&[("cpus", "tight!", 20_000), ("gpus", "tight", 20_000)]),
            rq(&[("cpus", "tight", 30_000), ("gpus", "tight!", 10_000)]),
            rq(&[("cpus", "compact!", 15_000), ("gpus", "compact", 5_000)]),
            rq(&[("cpus", "scatter", 30_000)]),
            rq(&[("cpus", "compact", 10_000)]),
            rq(&[("gpus", "scatter", 20_000)]),
            rq(&[("gpus", "compact", 10_000)]),
            rq(&[("cpus", "scatter", 20_000), ("gpus", "compact!", 20_000)]),
        ],
        coupled: false,
    });
    // a sum resource and non-integer amounts: the fractional parts of what is free and of what comes back add up beyond one unit
    out.push(Config {
        name: "sumfrac",
        desc: ResourceDescriptor::new(vec![ResourceDescriptorItem::sum("mem", 2)], Default::default()),
        names: vec!["mem"],
        requests: vec![
            rq(&[("mem", "compact", 6_000)]),
            rq(&[("mem", "compact", 7_000)]),
            rq(&[("mem", "compact", 13_000)]),
            rq(&[("mem", "compact", 5_000)]),
            rq(&[("mem", "compact", 20_000)]),
            rq(&[("mem", "all", 0)]),
        ],
        coupled: false,
    });
    // resources whose values are not 0..n-1: a range starting at 1, a list of names
    out.push(Config {
        name: "labels",
        desc: ResourceDescriptor::new(
            vec![ResourceDescriptorItem::range("cpus", 1, 4),
                 ResourceDescriptorItem { name: "gpus".into(), kind: ResourceDescriptorKind::List { values: vec!["a".into(), "b".into(), "c".into()] } }],
            Default::default(),
        ),
        names: vec!["cpus", "gpus"],
        requests: vec![
            rq(&[("cpus", "compact", 10_000)]),
            rq(&[("cpus", "compact", 20_000)]),
            rq(&[("cpus", "compact", 5_000)]),
            rq(&[("gpus", "compact", 10_000)]),
            rq(&[("cpus", "compact", 10_000), ("gpus", "compact", 10_000)]),
            rq(&[("gpus", "all", 0)]),
        ],
        coupled: false,
    });
    // very unequal groups
    out.push(Config {
        name: "groups26",
        desc: ResourceDescriptor::new(vec![groups("cpus", &[2, 6])], Default::default()),
        names: vec!["cpus"],
        requests: grouped_requests("cpus", &[10_000, 20_000, 25_000, 30_000, 60_000, 70_000]),
        coupled: false,
    });
    if thorough {
        out.push(Config {
            name: "groups4x2",
            desc: ResourceDescriptor::new(vec![groups("cpus", &[2, 2, 2, 2])], Default::default()),
            names: vec!["cpus"],
            requests: grouped_requests("cpus", &[5_000, 10_000, 15_000, 20_000, 30_000, 40_000, 50_000]),
            coupled: false,
        });
        out.push(Config {
            name: "groups133",
            desc: ResourceDescriptor::new(vec![groups("cpus", &[1, 3, 3])], Default::default()),
            names: vec!["cpus"],
            requests: grouped_requests("cpus", fr),
            coupled: false,
        });
    }
    out
}

#[derive(Clone, Debug, PartialEq, Eq, PartialOrd, Ord)]
enum Op {
    Alloc(usize),
    /// release the k-th live grant (in order of allocation)
    Release(usize),
}

fn rq_json(c: &Config, r: &SimRequest) -> Value {
    json!(r
        .iter()
        .map(|(n, p, a)| json!({"r": c.names.iter().position(|x| x == n).unwrap(), "policy": p, "amount": a}))
        .collect::<Vec<_>>())
}

fn live_json(a: &SimAllocator) -> Value {
    json!(a.live_handles().iter().map(|h| a.allocation_json(*h)).collect::<Vec<_>>())
}

/// Re-executes a path on a fresh allocator.
fn execute(c: &Config, path: &[Op]) -> SimAllocator {
    let mut a = SimAllocator::new(&c.desc);
    for op in path {
        match op {
            Op::Alloc(i) => {
                a.try_allocate(&c.requests[*i]);
            }
            Op::Release(k) => {
                let h = a.live_handles()[*k];
                a.release(h);
            }
        }
    }
    a
}

/// The value a task has to be told for index `idx` of resource number `r`, straight from the worker's resource description:
/// the `idx`-th listed value of a list / of the groups in their order; the number itself for a range.
fn expected_label(desc: &ResourceDescriptor, r: usize, idx: u32) -> String {
    match &desc.resources[r].kind {
        ResourceDescriptorKind::List { values } => values.get(idx as usize).cloned().unwrap_or_else(|| "?".into()),
        ResourceDescriptorKind::Groups { groups } => {
            groups.iter().flatten().nth(idx as usize).cloned().unwrap_or_else(|| "?".into())
        }
        ResourceDescriptorKind::Range { .. } => idx.to_string(),
        ResourceDescriptorKind::Sum { .. } => idx.to_string(),
    }
}

fn with_expected_labels(desc: &ResourceDescriptor, mut alloc: Value) -> Value {
    if let Some(ras) = alloc.as_array_mut() {
        for ra in ras {
            let r = ra["r"].as_u64().unwrap_or(0) as usize;
            if let Some(idx) = ra["idx"].as_array_mut() {
                for x in idx {
                    let i = x["i"].as_u64().unwrap_or(0) as u32;
                    x["expect"] = json!(expected_label(desc, r, i));
                }
            }
        }
    }
    alloc
}

fn canon(a: &SimAllocator) -> String {
    // the live grants as a multiset: the order of allocation does not matter for the future
    let mut live: Vec<String> = a.live_handles().iter().map(|h| a.allocation_json(*h).to_string()).collect();
    live.sort();
    // the whole state of the allocator, admission summary included (it mirrors the pools on correct code, so it adds no states
    // there; if it ever drifts, the drifted state is a state of its own whose future is explored)
    format!("{}|{}", a.state_json(), live.join(";"))
}

pub fn main(args: &[String]) -> i32 {
    panics::install();
    let arg = |name: &str| -> Option<&str> {
        args.iter().position(|a| a == name).and_then(|i| args.get(i + 1)).map(|s| s.as_str())
    };
    let out_path = arg("--out").unwrap_or("/dev/stdout");
    let mut out = std::io::BufWriter::new(std::fs::File::create(out_path).unwrap());
    let thorough = arg("--tier") == Some("thorough");
    let depth: usize = arg("--depth").unwrap_or("5").parse().unwrap();
    let max_states: usize = arg("--max-states").unwrap_or("3000").parse().unwrap();
    let seed: u64 = arg("--seed").unwrap_or("0").parse().unwrap();
    let only = arg("--config");
    // watchdog: an operation of the real allocator that does not return within 20 s is reported as a hang
    // (<out>.hang holds the transition that was being executed) and ends the process with exit code 3
    let pending: std::sync::Arc<std::sync::Mutex<Option<(std::time::Instant, Value)>>> = std::sync::Arc::new(std::sync::Mutex::new(None));
    {
        let pending = pending.clone();
        let hang_path = format!("{}.hang", out_path);
        std::thread::spawn(move || loop {
            std::thread::sleep(std::time::Duration::from_millis(500));
            let g = pending.lock().unwrap();
            if let Some((t0, v)) = g.as_ref() {
                if t0.elapsed() > std::time::Duration::from_secs(20) {
                    std::fs::write(&hang_path, v.to_string()).unwrap();
                    std::process::exit(3);
                }
            }
        });
    }
    let mut total_states = 0usize;
    let mut total_trans = 0usize;
    let mut granted = 0usize;
    let mut refused = 0usize;
    let mut exhaustive = true;
    for c in configs(thorough) {
        if let Some(o) = only {
            if o != c.name {
                continue;
            }
        }
        let ps0 = SimAllocator::new(&c.desc).state_json()["pools"].clone();
        let mut seen: BTreeSet<String> = BTreeSet::new();
        let mut queue: VecDeque<Vec<Op>> = VecDeque::new();
        seen.insert(canon(&SimAllocator::new(&c.desc)));
        queue.push_back(vec![]);
        let mut rng = Rng::new(seed ^ 0xA110C);
        let mut n_states = 0usize;
        while let Some(path) = queue.pop_front() {
            n_states += 1;
            if n_states > max_states {
                exhaustive = false;
                break;
            }
            let base = execute(&c, &path);
            let n_live = base.live_handles().len();
            let mut ops: Vec<Op> = (0..c.requests.len()).map(Op::Alloc).collect();
            ops.extend((0..n_live).map(Op::Release));
            // beyond the depth bound continue with a random subset (seeded) to reach deeper fragmented states
            if path.len() >= depth {
                if path.len() >= depth + 3 {
                    continue;
                }
                let keep = 2;
                let mut sel = Vec::new();
                for _ in 0..keep {
                    sel.push(ops[rng.below(ops.len())].clone());
                }
                ops = sel;
                exhaustive = false;
            }
            for op in ops {
                let mut a = execute(&c, &path);
                let pre = a.state_json();
                let live_pre = live_json(&a);
                let _ = panics::take();
                *pending.lock().unwrap() = Some((std::time::Instant::now(), match &op {
                    Op::Alloc(i) => json!({"d": c.name, "coupled": c.coupled, "ps0": ps0, "pre": pre, "live_pre": live_pre, "op": "alloc",
                                           "rq": rq_json(&c, &c.requests[*i]), "hang": true}),
                    Op::Release(k) => json!({"d": c.name, "coupled": c.coupled, "ps0": ps0, "pre": pre, "live_pre": live_pre, "op": "release",
                                             "rq": [], "k": k, "hang": true}),
                }));
                let line = match &op {
                    Op::Alloc(i) => {
                        let r = &c.requests[*i];
                        let res = std::panic::catch_unwind(std::panic::AssertUnwindSafe(|| {
                            let enabled = a.is_enabled(r);
                            let h = a.try_allocate(r);
                            (enabled, h)
                        }));
                        match res {
                            Ok((enabled, h)) => {
                                if h.is_some() {
                                    granted += 1;
                                } else {
                                    refused += 1;
                                }
                                json!({"d": c.name, "coupled": c.coupled, "ps0": ps0, "pre": pre, "live_pre": live_pre, "op": "alloc",
                                       "rq": rq_json(&c, r), "enabled": enabled, "granted": h.is_some(),
                                       "alloc": h.map(|h| with_expected_labels(&c.desc, a.allocation_json(h))).unwrap_or(json!([])),
                                       "post": a.state_json(), "live_post": live_json(&a), "pan": 0, "ploc": ""})
                            }
                            Err(_) => {
                                let (loc, _) = panics::take().unwrap_or(("?".into(), "?".into()));
                                json!({"d": c.name, "coupled": c.coupled, "ps0": ps0, "pre": pre, "live_pre": live_pre, "op": "alloc",
                                       "rq": rq_json(&c, r), "enabled": false, "granted": false, "alloc": [],
                                       "post": pre, "live_post": live_pre, "pan": 1, "ploc": loc})
                            }
                        }
                    }
                    Op::Release(k) => {
                        let h = a.live_handles()[*k];
                        let released = a.allocation_json(h);
                        let res = std::panic::catch_unwind(std::panic::AssertUnwindSafe(|| a.release(h)));
                        match res {
                            Ok(()) => json!({"d": c.name, "coupled": c.coupled, "ps0": ps0, "pre": pre, "live_pre": live_pre, "op": "release",
                                             "rq": [], "enabled": false, "granted": false, "alloc": released,
                                             "post": a.state_json(), "live_post": live_json(&a), "pan": 0, "ploc": ""}),
                            Err(_) => {
                                let (loc, _) = panics::take().unwrap_or(("?".into(), "?".into()));
                                json!({"d": c.name, "coupled": c.coupled, "ps0": ps0, "pre": pre, "live_pre": live_pre, "op": "release",
                                       "rq": [], "enabled": false, "granted": false, "alloc": released,
                                       "post": pre, "live_post": live_pre, "pan": 1, "ploc": loc})
                            }
                        }
                    }
                };
                *pending.lock().unwrap() = None;
                let panicked = line["pan"] == 1;
                writeln!(out, "{}", line).unwrap();
                total_trans += 1;
                if panicked {
                    continue;
                }
                let key = canon(&a);
                if seen.insert(key) {
                    let mut p2 = path.clone();
                    p2.push(op);
                    queue.push_back(p2);
                }
            }
        }
        total_states += seen.len();
    }
    out.flush().unwrap();
    eprintln!("{}", json!({"states": total_states, "transitions": total_trans, "granted": granted, "refused": refused, "exhaustive_to_depth": exhaustive, "depth": depth}));
    0
}
