//! Server start with an existing journal through the REAL `init_hq_server` / `start_server` (bootstrap.rs): the server is
//! started in-process on a journal that already carries a server uid - with and without a uid pre-set in the configuration,
//! as `hq server start --access-file` does -, asked to stop through a real client connection, and the uids it used (access
//! record of the server directory, `ServerStart` records appended to the journal) are logged for C11_UidKept.

use std::io::Write;
use std::time::Duration;

use hyperqueue::client::globalsettings::GlobalSettings;
use hyperqueue::client::output::quiet::Quiet;
use hyperqueue::common::serverdir::ServerDir;
use hyperqueue::server::bootstrap::{ServerConfig, get_client_session, init_hq_server};
use hyperqueue::server::event::Event;
use hyperqueue::server::event::journal::{JournalReader, JournalWriter};
use hyperqueue::server::event::payload::EventPayload;
use serde_json::{Value, json};

fn starts_in(path: &std::path::Path) -> Vec<String> {
    let mut out = Vec::new();
    if let Ok(mut reader) = JournalReader::open(path) {
        for e in &mut reader {
            if let Ok(e) = e {
                if let EventPayload::ServerStart { server_uid } = e.payload {
                    out.push(server_uid);
                }
            }
        }
    }
    out
}

async fn one_case(journal_uid: &str, cfg_uid: Option<&str>, earlier_stops: usize) -> Value {
    let tmp = tempfile::TempDir::with_prefix("hqvb").unwrap();
    let server_dir = tmp.path().join("sd");
    std::fs::create_dir_all(&server_dir).unwrap();
    let journal = tmp.path().join("journal.bin");
    {
        let mut w = JournalWriter::create_or_append(&journal, None).unwrap();
        for _ in 0..=earlier_stops {
            w.store(Event::at(chrono::Utc::now(), EventPayload::ServerStart { server_uid: journal_uid.to_string() })).unwrap();
            w.store(Event::at(chrono::Utc::now(), EventPayload::ServerStop)).unwrap();
        }
        w.finish().unwrap();
    }
    let cfg = ServerConfig {
        client_host: "localhost".into(),
        worker_host: "localhost".into(),
        idle_timeout: None,
        client_port: None,
        worker_port: None,
        journal_path: Some(journal.clone()),
        journal_flush_period: Duration::from_secs(30),
        worker_secret_key: None,
        client_secret_key: None,
        server_uid: cfg_uid.map(|s| s.to_string()),
        scheduler_mip_time_limit: Duration::from_secs(1),
    };
    let gs = GlobalSettings::new(server_dir.clone(), Box::new(Quiet));
    let local = tokio::task::LocalSet::new();
    let sd2 = server_dir.clone();
    let result = local
        .run_until(async move {
            let server = tokio::task::spawn_local(async move { init_hq_server(&gs, cfg).await.map_err(|e| e.to_string()) });
            // wait until the server is reachable, read what it says about itself, ask it to stop
            let mut access_uid = String::new();
            let mut stopped = false;
            for _ in 0..200 {
                tokio::time::sleep(Duration::from_millis(25)).await;
                if server.is_finished() {
                    break;
                }
                if let Ok(sd) = ServerDir::open(&sd2) {
                    if sd.read_client_access_record().is_ok() {
                        access_uid = std::fs::read_to_string(sd.access_filename())
                            .ok()
                            .and_then(|raw| serde_json::from_str::<Value>(&raw).ok())
                            .and_then(|v| v["server_uid"].as_str().map(|x| x.to_string()))
                            .unwrap_or_default();
                        if let Ok(mut session) = get_client_session(&sd2).await {
                            let _ = hyperqueue::client::server::client_stop_server(session.connection()).await;
                            stopped = true;
                            break;
                        }
                    }
                }
            }
            let ended = tokio::time::timeout(Duration::from_secs(20), server).await;
            let err = match ended {
                Ok(Ok(Ok(()))) => String::new(),
                Ok(Ok(Err(e))) => e,
                Ok(Err(e)) => format!("join error {e}"),
                Err(_) => "server did not end".to_string(),
            };
            (access_uid, stopped, err)
        })
        .await;
    let starts = starts_in(&journal);
    json!({"journal_uid": journal_uid, "cfg_uid": cfg_uid.unwrap_or(""), "earlier_runs": earlier_stops + 1,
           "access_uid": result.0, "stopped": result.1, "err": result.2, "starts": starts})
}

pub fn main(args: &[String]) -> i32 {
    let arg = |name: &str| -> Option<&str> {
        args.iter().position(|a| a == name).and_then(|i| args.get(i + 1)).map(|s| s.as_str())
    };
    let out_path = arg("--out").unwrap_or("/dev/stdout");
    let mut out = std::io::BufWriter::new(std::fs::File::create(out_path).unwrap());
    let rt = tokio::runtime::Builder::new_current_thread().enable_all().build().unwrap();
    let cases: Vec<(&str, Option<&str>, usize)> = vec![
        ("abc123", None, 0),
        ("abc123", Some("zzz999"), 0),
        ("abc123", Some("abc123"), 0),
        ("Qq7Zx1", Some("zzz999"), 1),
        ("Qq7Zx1", None, 2),
    ];
    for (ju, cu, n) in cases {
        let v = rt.block_on(one_case(ju, cu, n));
        writeln!(out, "{}", v).unwrap();
    }
    out.flush().unwrap();
    0
}
