//! Replay of the handshake scenarios of spec/Auth.tla into the real `do_authentication`:
//! two real endpoints over in-memory pipes with an interposed frame-level adversary.

use std::io::Write;
use std::sync::Arc;

use bytes::Bytes;
use futures::{SinkExt, StreamExt};
use orion::kdf::SecretKey;
use serde_json::{Value, json};
use tako::verif::auth as hook;

use crate::walk::Rng;

const KINDS: &[(&str, &str)] = &[("server", "worker"), ("worker", "server"), ("server", "client"), ("client", "server")];
const KEYS: &[&str] = &["k1", "k2", "none"];
const ROLES: &[&str] = &["server", "worker", "client"];
const CHALLENGES: &[&str] = &["cA", "cB", "cA2", "cB2", "cX", "none"];
const RESP_SOURCES: &[&str] = &["forge_noauth", "forge_error", "tamper", "own_A", "own_B", "other_A", "other_B"];

#[derive(Clone)]
struct Endpoint {
    key: &'static str,
    role: &'static str,
    peer: &'static str,
    proto: u32,
}

fn key_of(name: &str, k1: &Arc<SecretKey>, k2: &Arc<SecretKey>) -> Option<Arc<SecretKey>> {
    match name {
        "k1" => Some(k1.clone()),
        "k2" => Some(k2.clone()),
        _ => None,
    }
}

#[derive(Clone, Debug)]
enum Move {
    Pass,
    Request { slot: u8, proto: u32, role: &'static str, ch: &'static str },
    Response { slot: u8, src: &'static str },
}

struct Frames {
    req_a: Option<Bytes>,
    req_b: Option<Bytes>,
    resp_a: Option<Bytes>,
    resp_b: Option<Bytes>,
}

struct Outcome {
    accept_a: bool,
    accept_b: bool,
    frames: Frames,
}

type Pipe = tokio_util::codec::Framed<tokio::io::DuplexStream, tokio_util::codec::LengthDelimitedCodec>;

/// One session; `edit(slot, genuine frame, frames seen so far)` decides what is delivered in each slot.
async fn session<F>(a: &Endpoint, b: &Endpoint, k1: &Arc<SecretKey>, k2: &Arc<SecretKey>, mut edit: F) -> Outcome
where
    F: FnMut(u8, Option<Bytes>, &Frames) -> Option<Bytes>,
{
    let (a_io, ma_io) = tokio::io::duplex(1 << 16);
    let (b_io, mb_io) = tokio::io::duplex(1 << 16);
    let ka = key_of(a.key, k1, k2);
    let kb = key_of(b.key, k1, k2);
    let (ar, ap, apr) = (a.role, a.peer, a.proto);
    let (br, bp, bpr) = (b.role, b.peer, b.proto);
    let ta = tokio::task::spawn_local(async move {
        let (mut w, mut r) = hook::protocol_builder().new_framed(a_io).split();
        tako::comm::do_authentication(apr, ar, ap, ka, &mut w, &mut r).await.is_ok()
    });
    let tb = tokio::task::spawn_local(async move {
        let (mut w, mut r) = hook::protocol_builder().new_framed(b_io).split();
        tako::comm::do_authentication(bpr, br, bp, kb, &mut w, &mut r).await.is_ok()
    });
    let mut ma: Pipe = hook::protocol_builder().new_framed(ma_io);
    let mut mb: Pipe = hook::protocol_builder().new_framed(mb_io);
    let mut frames = Frames { req_a: None, req_b: None, resp_a: None, resp_b: None };
    frames.req_a = ma.next().await.and_then(|x| x.ok()).map(|x| x.freeze());
    frames.req_b = mb.next().await.and_then(|x| x.ok()).map(|x| x.freeze());
    let to_b1 = edit(1, frames.req_a.clone(), &frames);
    let to_a2 = edit(2, frames.req_b.clone(), &frames);
    let mut a_open = true;
    let mut b_open = true;
    match to_b1 {
        Some(f) => b_open &= mb.send(f).await.is_ok(),
        None => b_open = false,
    }
    match to_a2 {
        Some(f) => a_open &= ma.send(f).await.is_ok(),
        None => a_open = false,
    }
    if !a_open {
        let _ = ma.close().await;
    }
    if !b_open {
        let _ = mb.close().await;
    }
    // an endpoint that failed on the request sends nothing; wait for whichever responses come
    frames.resp_a = if a_open { ma.next().await.and_then(|x| x.ok()).map(|x| x.freeze()) } else { None };
    frames.resp_b = if b_open { mb.next().await.and_then(|x| x.ok()).map(|x| x.freeze()) } else { None };
    let to_b3 = edit(3, frames.resp_a.clone(), &frames);
    let to_a4 = edit(4, frames.resp_b.clone(), &frames);
    match to_b3 {
        Some(f) if b_open => {
            let _ = mb.send(f).await;
        }
        _ => {
            let _ = mb.close().await;
        }
    }
    match to_a4 {
        Some(f) if a_open => {
            let _ = ma.send(f).await;
        }
        _ => {
            let _ = ma.close().await;
        }
    }
    drop(ma);
    drop(mb);
    let accept_a = ta.await.unwrap_or(false);
    let accept_b = tb.await.unwrap_or(false);
    Outcome { accept_a, accept_b, frames }
}

fn fixed(tag: u8) -> Vec<u8> {
    (0..16).map(|i| tag.wrapping_mul(17).wrapping_add(i)).collect()
}

async fn run_scenario(a: &Endpoint, b: &Endpoint, mv: &Move, k1: &Arc<SecretKey>, k2: &Arc<SecretKey>) -> (bool, bool, Value) {
    // the honest reference session (cross-session replay source)
    let other = session(a, b, k1, k2, |_, f, _| f).await;
    let o_req_a = other.frames.req_a.clone();
    let o_req_b = other.frames.req_b.clone();
    let o_resp_a = other.frames.resp_a.clone();
    let o_resp_b = other.frames.resp_b.clone();
    let mvc = mv.clone();
    let mut delivered = json!({});
    let out = session(a, b, k1, k2, |slot, genuine, seen| {
        let r = match &mvc {
            Move::Pass => genuine,
            Move::Request { slot: s, proto, role, ch } if *s == slot => {
                let pick = |f: &Option<Bytes>, tag: u8| -> Vec<u8> {
                    f.as_ref().and_then(|f| hook::challenge_of(f)).unwrap_or_else(|| fixed(tag))
                };
                let challenge = match *ch {
                    "none" => None,
                    "cA" => Some(pick(&seen.req_a, 1)),
                    "cB" => Some(pick(&seen.req_b, 2)),
                    "cA2" => Some(pick(&o_req_a, 3)),
                    "cB2" => Some(pick(&o_req_b, 4)),
                    _ => Some(fixed(5)),
                };
                Some(hook::forge_request(*proto, role, challenge))
            }
            Move::Response { slot: s, src } if *s == slot => match *src {
                "forge_noauth" => Some(hook::forge_response("noauth")),
                "forge_error" => Some(hook::forge_response("error")),
                "tamper" => Some(
                    genuine
                        .as_ref()
                        .and_then(|g| hook::tamper_response(g, false))
                        .unwrap_or_else(|| Bytes::from_static(&[0xff, 0xff, 0xff, 0xff, 0xff, 0xff, 0xff, 0xff, 0xff])),
                ),
                "own_A" => seen.resp_a.clone(),
                "own_B" => seen.resp_b.clone(),
                "other_A" => o_resp_a.clone(),
                _ => o_resp_b.clone(),
            },
            _ => genuine,
        };
        if let Some(f) = &r {
            delivered[format!("s{slot}")] = if slot <= 2 { hook::describe_request(f) } else { hook::describe_response(f) };
        }
        r
    })
    .await;
    (out.accept_a, out.accept_b, delivered)
}

pub fn main(args: &[String]) -> i32 {
    let arg = |name: &str| -> Option<&str> {
        args.iter().position(|a| a == name).and_then(|i| args.get(i + 1)).map(|s| s.as_str())
    };
    let out_path = arg("--out").unwrap_or("/dev/stdout");
    let mut out = std::io::BufWriter::new(std::fs::File::create(out_path).unwrap());
    let seed: u64 = arg("--seed").unwrap_or("0").parse().unwrap();
    // keep 1 of `sample` adversarial scenarios (all undisturbed ones are always kept); 1 = everything
    let sample: u64 = arg("--sample").unwrap_or("1").parse().unwrap();
    let verbose = args.iter().any(|a| a == "--verbose");
    let k1 = Arc::new(SecretKey::from_slice(&[7u8; 32]).unwrap());
    let k2 = Arc::new(SecretKey::from_slice(&[9u8; 32]).unwrap());
    let rt = tokio::runtime::Builder::new_current_thread().enable_all().build().unwrap();
    let local = tokio::task::LocalSet::new();
    let mut rng = Rng::new(seed ^ 0xA07);
    let mut n = 0u64;
    let mut total = 0u64;
    local.block_on(&rt, async {
        for ka in KEYS {
            for kb in KEYS {
                for ia in KINDS {
                    for ib in KINDS {
                        for pa in 0..2u32 {
                            for pb in 0..2u32 {
                                let a = Endpoint { key: ka, role: ia.0, peer: ia.1, proto: pa };
                                let b = Endpoint { key: kb, role: ib.0, peer: ib.1, proto: pb };
                                let mut moves = vec![Move::Pass];
                                for slot in [1u8, 2] {
                                    for proto in 0..2u32 {
                                        for role in ROLES {
                                            for ch in CHALLENGES {
                                                moves.push(Move::Request { slot, proto, role, ch });
                                            }
                                        }
                                    }
                                }
                                for slot in [3u8, 4] {
                                    for src in RESP_SOURCES {
                                        moves.push(Move::Response { slot, src });
                                    }
                                }
                                for mv in moves {
                                    total += 1;
                                    if !matches!(mv, Move::Pass) && sample > 1 && rng.next() % sample != 0 {
                                        continue;
                                    }
                                    let (aa, ab, delivered) = run_scenario(&a, &b, &mv, &k1, &k2).await;
                                    let (slot, m) = match &mv {
                                        Move::Pass => (0, json!({"kind": "pass", "proto": 0, "role": "", "ch": "", "src": ""})),
                                        Move::Request { slot, proto, role, ch } => (*slot, json!({"kind": "req", "proto": proto, "role": role, "ch": ch, "src": ""})),
                                        Move::Response { slot, src } => (*slot, json!({"kind": "resp", "proto": 0, "role": "", "ch": "", "src": src})),
                                    };
                                    writeln!(
                                        out,
                                        "{}",
                                        json!({"a": {"key": a.key, "role": a.role, "peer": a.peer, "proto": a.proto},
                                               "b": {"key": b.key, "role": b.role, "peer": b.peer, "proto": b.proto},
                                               "slot": slot, "m": m, "acceptA": aa, "acceptB": ab, "delivered": if verbose { delivered.to_string() } else { String::new() }})
                                    )
                                    .unwrap();
                                    n += 1;
                                }
                            }
                        }
                    }
                }
            }
        }
    });
    out.flush().unwrap();
    eprintln!("{}", json!({"scenarios_run": n, "scenario_space": total}));
    0
}
