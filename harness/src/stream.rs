//! Output streaming: seeded behaviours (task executions writing stdout/stderr chunks through the real
//! `StreamerRef`/`stream_writer`, interleaved in one or more stream files, writer restarts, worker crashes
//! that cut a file after its last flush) realised with the real writer and read back with the real `OutputLog`.

use std::collections::BTreeMap;
use std::io::Write;
use std::path::PathBuf;

use hyperqueue::stream::reader::outputlog::OutputLog;
use hyperqueue::worker::streamer::{StreamSender, StreamerRef};
use serde_json::{Value, json};
use tako::{InstanceId, JobId, JobTaskId, TaskId, WorkerId};

use crate::panics;
use crate::walk::Rng;

struct Exec {
    task: u32,
    inst: u32,
    worker: u32,
    end: &'static str, // finished | failed | crashed
    chunks: [Vec<(String, usize)>; 2],
    // runtime
    sender: Option<StreamSender>,
    next: [usize; 2],
    closed: [bool; 2],
    started: bool,
    done: bool,
    file_seq: i64,
}

fn chunk_bytes(name: &str, size: usize) -> Vec<u8> {
    let mut v = name.as_bytes().to_vec();
    while v.len() + 1 < size {
        v.push(b'.');
    }
    v.push(b';');
    v
}

fn parse(bytes: &[u8]) -> Vec<Value> {
    let mut out = Vec::new();
    for part in bytes.split_inclusive(|b| *b == b';') {
        let s = String::from_utf8_lossy(part);
        let name = s.trim_end_matches(';').trim_end_matches('.').to_string();
        out.push(json!([name, part.len()]));
    }
    out
}

async fn pump() {
    for _ in 0..30 {
        tokio::task::yield_now().await;
    }
    // the file writer uses tokio::fs (blocking pool)
    tokio::time::sleep(std::time::Duration::from_millis(1)).await;
    for _ in 0..30 {
        tokio::task::yield_now().await;
    }
}

fn files_of(dir: &std::path::Path) -> Vec<PathBuf> {
    let mut v: Vec<PathBuf> = std::fs::read_dir(dir)
        .map(|d| d.filter_map(|e| e.ok()).map(|e| e.path()).collect())
        .unwrap_or_default();
    v.sort();
    v
}

/// What the real reader answers for every (task, channel) of the directory as it is right now.
fn read_back(dir: &std::path::Path, n_tasks: u32) -> (Vec<Value>, String, i64) {
    let _ = panics::take();
    let read = std::panic::catch_unwind(std::panic::AssertUnwindSafe(|| -> Result<Vec<Value>, String> {
        let mut log = OutputLog::open(dir, None).map_err(|e| e.to_string())?;
        let mut out = Vec::new();
        for t in 1..=n_tasks {
            for c in 0..2u32 {
                match log.verif_read(JobId::new(1), JobTaskId::new(t), c) {
                    Ok(Some((bytes, inst, finished, superseded))) => out.push(
                        json!({"task": t, "chan": c, "found": true, "err": "", "tokens": parse(&bytes), "inst": inst, "finished": finished, "superseded": superseded}),
                    ),
                    Ok(None) => out.push(json!({"task": t, "chan": c, "found": false, "err": "", "tokens": [], "inst": -1, "finished": false, "superseded": []})),
                    Err(e) => out.push(json!({"task": t, "chan": c, "found": true, "err": e.to_string(), "tokens": [], "inst": -1, "finished": false, "superseded": []})),
                }
            }
        }
        Ok(out)
    }));
    match read {
        Ok(Ok(r)) => (r, String::new(), 0),
        Ok(Err(e)) => (vec![], e, 0),
        Err(_) => (vec![], panics::take().map(|p| p.0).unwrap_or_default(), 1),
    }
}

/// The executions started so far; one that has not ended yet is "running" (nothing is promised about it).
fn execs_json(execs: &[Exec], at_end: bool) -> Vec<Value> {
    execs
        .iter()
        .filter(|e| e.started)
        .map(|e| {
            json!({"task": e.task, "inst": e.inst, "worker": e.worker, "end": if e.done || at_end { e.end } else { "running" }, "file": e.file_seq,
                   "out": e.chunks[0].iter().take(e.next[0]).map(|(n, s)| json!([n, s])).collect::<Vec<_>>(),
                   "err": e.chunks[1].iter().take(e.next[1]).map(|(n, s)| json!([n, s])).collect::<Vec<_>>(),
                   "planned_out": e.chunks[0].len(), "planned_err": e.chunks[1].len()})
        })
        .collect()
}

/// The records of every worker's stream file as the real parser sees them now: [task, inst, chan, size, name, complete].
fn scan_files(worker_file: &BTreeMap<u32, PathBuf>, execs: &[Exec]) -> Value {
    let mut m = serde_json::Map::new();
    for (w, f) in worker_file {
        let recs = match OutputLog::verif_scan_file(f) {
            Ok(Some(r)) => r,
            _ => Vec::new(),
        };
        let mut ord: BTreeMap<(u32, u32, u32), usize> = BTreeMap::new();
        let mut out = Vec::new();
        for (t, i, c, size, ok) in recs {
            let name = if size == 0 {
                String::new()
            } else {
                let k = ord.entry((t, i, c)).or_insert(0);
                let n = execs
                    .iter()
                    .find(|e| e.task == t && e.inst == i)
                    .and_then(|e| e.chunks.get(c as usize).and_then(|v| v.get(*k)))
                    .map(|x| x.0.clone())
                    .unwrap_or_default();
                *k += 1;
                n
            };
            out.push(json!([t, i, c, size, name, ok]));
        }
        m.insert(w.to_string(), Value::Array(out));
    }
    Value::Object(m)
}

/// One observation: the reader's answers and the scan of the files, taken at a moment when the files do not change
/// (a write handed to the blocking pool may still land; then the observation is repeated).
fn observe(dir: &std::path::Path, n_tasks: u32, worker_file: &BTreeMap<u32, PathBuf>, execs: &[Exec], evs: &[Value]) -> Value {
    let mut tries = 0;
    loop {
        let before = scan_files(worker_file, execs);
        let (read, open_err, pan) = read_back(dir, n_tasks);
        let after = scan_files(worker_file, execs);
        tries += 1;
        if before == after || tries >= 20 {
            return json!({"evs": evs.to_vec(), "execs": execs_json(execs, false), "read": read, "open_err": open_err, "pan": pan,
                          "files": after, "stable": before == after});
        }
        std::thread::sleep(std::time::Duration::from_millis(1));
    }
}

async fn one_run(run: u64, seed: u64, big: bool) -> Value {
    let mut rng = Rng::new(seed);
    let tmp = tempfile::TempDir::with_prefix("hqvs").unwrap();
    let dir = tmp.path().join("stream");
    let n_tasks = 1 + rng.below(3) as u32;
    let n_workers = 1 + rng.below(3) as u32;
    let mut execs: Vec<Exec> = Vec::new();
    for t in 1..=n_tasks {
        let n_inst = 1 + rng.below(3) as u32;
        for i in 0..n_inst {
            let last = i + 1 == n_inst;
            let end = if last {
                if rng.below(2) == 0 { "finished" } else { "failed" }
            } else if rng.below(3) == 0 {
                "failed"
            } else {
                "crashed"
            };
            let mut chunks: [Vec<(String, usize)>; 2] = [Vec::new(), Vec::new()];
            for c in 0..2 {
                let n = rng.below(4);
                for s in 0..n {
                    let size = match rng.below(6) {
                        0 if big => 16 * 1024,
                        1 if big => 16 * 1024 + 1,
                        2 => 12,
                        _ => 14 + rng.below(40),
                    };
                    chunks[c].push((format!("T{t}I{i}C{c}S{s}"), size.max(12)));
                }
            }
            execs.push(Exec {
                task: t, inst: i, worker: 1 + rng.below(n_workers as usize) as u32, end, chunks,
                sender: None, next: [0, 0], closed: [false, false], started: false, done: false, file_seq: -1,
            });
        }
    }
    // one streamer (= worker process) per worker
    let mut streamers: BTreeMap<u32, StreamerRef> = BTreeMap::new();
    for w in 1..=n_workers {
        streamers.insert(w, StreamerRef::new("uid", WorkerId::new(w)));
    }
    let mut crashed_workers: BTreeMap<u32, (PathBuf, u64)> = BTreeMap::new(); // worker -> (file, cut)
    let mut last_flush_len: BTreeMap<PathBuf, u64> = BTreeMap::new();
    let mut worker_file: BTreeMap<u32, PathBuf> = BTreeMap::new();
    let mut events: Vec<Value> = Vec::new();
    let mut guard = 0;
    let hard = run % 5 == 1 || run % 5 == 4;
    let mut hard_stopped = false;
    // after every step the directory is read as it is (streamers alive) and every file is scanned: the promise about an
    // execution holds from the moment its end is reported, not only when everything has shut down
    let mut steps: Vec<Value> = Vec::new();
    let mut seen = 0usize;
    loop {
        guard += 1;
        if guard > 2000 {
            break;
        }
        if events.len() > seen {
            steps.push(observe(&dir, n_tasks, &worker_file, &execs, &events[seen..]));
            seen = events.len();
        }
        // executions that can make a step: same task on the same worker strictly sequential, instances start in order
        let mut cands: Vec<usize> = Vec::new();
        for (k, e) in execs.iter().enumerate() {
            if e.done || crashed_workers.contains_key(&e.worker) {
                continue;
            }
            let earlier_ok = execs.iter().all(|o| !(o.task == e.task && o.inst < e.inst) || o.started);
            let same_worker_ok = execs.iter().all(|o| !(o.task == e.task && o.inst < e.inst && o.worker == e.worker) || o.done);
            if earlier_ok && same_worker_ok {
                cands.push(k);
            }
        }
        if cands.is_empty() {
            break;
        }
        if hard && guard > 3 && rng.below(12) == 0 {
            hard_stopped = true;
            break;
        }
        let k = cands[rng.below(cands.len())];
        let (task, inst, worker) = (execs[k].task, execs[k].inst, execs[k].worker);
        if !execs[k].started {
            let sref = streamers.get(&worker).unwrap().clone();
            let before = files_of(&dir);
            let s = sref
                .get_mut()
                .get_stream(&sref, &dir, TaskId::new(JobId::new(1), JobTaskId::new(task)), InstanceId::new(inst))
                .unwrap();
            pump().await;
            let mut after = files_of(&dir);
            if !worker_file.contains_key(&worker) {
                // the first stream of a worker creates its file on the blocking pool: wait until it exists, otherwise
                // the file would be attributed to the next worker that starts (and cut by that worker's crash)
                let mut tries = 0;
                while after.iter().all(|f| before.contains(f)) && tries < 3000 {
                    tokio::time::sleep(std::time::Duration::from_millis(1)).await;
                    pump().await;
                    after = files_of(&dir);
                    tries += 1;
                }
            }
            if let Some(newf) = after.iter().find(|f| !before.contains(f)) {
                worker_file.insert(worker, newf.clone());
            }
            execs[k].file_seq = after.iter().position(|f| Some(f) == worker_file.get(&worker)).map(|x| x as i64).unwrap_or(-1);
            execs[k].sender = Some(s);
            execs[k].started = true;
            events.push(json!(["start", task, inst, worker]));
            continue;
        }
        // a crashed execution stops at a random point: its worker dies
        let open: Vec<usize> = (0..2).filter(|c| !execs[k].closed[*c]).collect();
        if execs[k].end == "crashed" && rng.below(3) == 0 {
            // everything written so far may or may not have reached the disk: cut between last flush and now
            let s = execs[k].sender.as_ref().unwrap().clone();
            // what is in the file at this moment survives; of what the writer still holds any part may
            let pre = worker_file.get(&worker).and_then(|f| std::fs::metadata(f).ok()).map(|m| m.len()).unwrap_or(0);
            let _ = s.flush().await;
            pump().await;
            if let Some(f) = worker_file.get(&worker).cloned() {
                let full = std::fs::metadata(&f).map(|m| m.len()).unwrap_or(0);
                let lo = last_flush_len.get(&f).copied().unwrap_or(0).max(pre).min(full);
                let cut = lo + (rng.next() % (full - lo + 1));
                if let Ok(file) = std::fs::OpenOptions::new().write(true).open(&f) {
                    let _ = file.set_len(cut);
                }
                crashed_workers.insert(worker, (f, cut));
                events.push(json!(["crash", worker, lo, full, cut]));
            }
            for e in execs.iter_mut() {
                if e.worker == worker && e.started && !e.done {
                    e.done = true;
                    if e.end != "crashed" {
                        e.end = "crashed";
                    }
                    e.sender = None;
                }
            }
            continue;
        }
        if open.is_empty() {
            // task ends: flush, report
            let s = execs[k].sender.take().unwrap();
            if execs[k].end != "crashed" {
                // another execution running on the same worker may write at the very moment this one ends: its chunk is
                // queued right behind the flush request
                let other = (0..execs.len()).find(|o| {
                    *o != k && execs[*o].worker == worker && execs[*o].started && !execs[*o].done && execs[*o].sender.is_some()
                        && (0..2).any(|c| !execs[*o].closed[c] && execs[*o].next[c] < execs[*o].chunks[c].len())
                });
                match other {
                    Some(o) if rng.below(3) != 0 => {
                        let c = (0..2).find(|c| !execs[o].closed[*c] && execs[o].next[*c] < execs[o].chunks[*c].len()).unwrap();
                        let (name, size) = execs[o].chunks[c][execs[o].next[c]].clone();
                        let s2 = execs[o].sender.as_ref().unwrap().clone();
                        let (_, _) = tokio::join!(s.flush(), s2.send_data(c as u32, chunk_bytes(&name, size)));
                        execs[o].next[c] += 1;
                        events.push(json!(["flush", task, inst]));
                        events.push(json!(["write", execs[o].task, execs[o].inst, c, name, size]));
                    }
                    _ => {
                        let _ = s.flush().await;
                        events.push(json!(["flush", task, inst]));
                    }
                }
                if hard {
                    // the length at the moment the end is reported, before anything else is let through
                    if let Some(f) = worker_file.get(&worker) {
                        last_flush_len.insert(f.clone(), std::fs::metadata(f).map(|m| m.len()).unwrap_or(0));
                    }
                }
                pump().await;
                if let Some(f) = worker_file.get(&worker) {
                    last_flush_len.insert(f.clone(), std::fs::metadata(f).map(|m| m.len()).unwrap_or(0));
                }
            }
            drop(s);
            pump().await;
            execs[k].done = true;
            events.push(json!(["end", task, inst, execs[k].end]));
            continue;
        }
        let c = open[rng.below(open.len())];
        let s = execs[k].sender.as_ref().unwrap().clone();
        if execs[k].next[c] < execs[k].chunks[c].len() {
            let (name, size) = execs[k].chunks[c][execs[k].next[c]].clone();
            let _ = s.send_data(c as u32, chunk_bytes(&name, size)).await;
            execs[k].next[c] += 1;
            events.push(json!(["write", task, inst, c, name, size]));
        } else {
            let _ = s.send_data(c as u32, Vec::new()).await;
            execs[k].closed[c] = true;
            events.push(json!(["close", task, inst, c]));
        }
        pump().await;
    }
    if events.len() > seen {
        steps.push(observe(&dir, n_tasks, &worker_file, &execs, &events[seen..]));
    }
    // let all writers finish, then apply the crash cuts; in a hard stop every worker is killed at this very moment instead:
    // the directory is read as it is while the streamers are alive, and what was running counts as crashed
    if hard {
        for e in execs.iter_mut() {
            if e.started && !e.done {
                e.done = true;
                e.end = "crashed";
            }
        }
        events.push(json!(["hardstop", hard_stopped]));
    } else {
        for e in execs.iter_mut() {
            e.sender = None;
        }
        drop(streamers);
        streamers = BTreeMap::new();
    }
    pump().await;
    for (_, (f, cut)) in crashed_workers.iter() {
        if let Ok(file) = std::fs::OpenOptions::new().write(true).open(f) {
            let _ = file.set_len(*cut);
        }
    }
    // executions that never started (their worker crashed earlier) are not part of the behaviour
    let (read, open_err, pan) = read_back(&dir, n_tasks);
    for e in execs.iter_mut() {
        e.sender = None;
    }
    drop(streamers);
    let ex = execs_json(&execs, true);
    json!({"run": run, "execs": ex, "read": read, "open_err": open_err, "pan": pan, "n_files": files_of(&dir).len(), "events": events, "steps": steps})
}

/// Process mode: the executions are REAL processes run through the real task future of the worker
/// (`create_task_future`: pipes -> streamer -> flush at task end), one after the other in a seeded order; every execution ends
/// finished or failed.  The directory is read while the streamers are still alive, i.e. as it would be found if the workers
/// were killed right after reporting the last task: what a reported task wrote has to be there.
async fn one_run_proc(run: u64, seed: u64) -> Value {
    use tako::program::{ProgramDefinition, StdioDef};
    let mut rng = Rng::new(seed ^ 0x9e0c);
    let tmp = tempfile::TempDir::with_prefix("hqvp").unwrap();
    let dir = tmp.path().join("stream");
    let cwd = tmp.path().to_path_buf();
    let n_tasks = 1 + rng.below(3) as u32;
    let n_workers = 1 + rng.below(2) as u32;
    let mut streamers: BTreeMap<u32, StreamerRef> = BTreeMap::new();
    for w in 1..=n_workers {
        streamers.insert(w, StreamerRef::new("uid", WorkerId::new(w)));
    }
    // (task, inst, worker, end, out chunks, err chunks)
    let mut plan: Vec<(u32, u32, u32, &'static str, Vec<(String, usize)>, Vec<(String, usize)>)> = Vec::new();
    for t in 1..=n_tasks {
        let n_inst = 1 + rng.below(2) as u32;
        for i in 0..n_inst {
            let mut chunks: [Vec<(String, usize)>; 2] = [Vec::new(), Vec::new()];
            for c in 0..2 {
                for sidx in 0..rng.below(4) {
                    let size = [12usize, 20, 64, 300, 9000][rng.below(5)];
                    chunks[c].push((format!("T{t}I{i}C{c}S{sidx}"), size));
                }
            }
            let end = if rng.below(2) == 0 { "finished" } else { "failed" };
            plan.push((t, i, 1 + rng.below(n_workers as usize) as u32, end, chunks[0].clone(), chunks[1].clone()));
        }
    }
    // seeded order that keeps the instances of a task in order
    let mut order: Vec<usize> = Vec::new();
    let mut done = vec![false; plan.len()];
    while order.len() < plan.len() {
        let cands: Vec<usize> = (0..plan.len())
            .filter(|k| !done[*k] && (0..plan.len()).all(|o| !(plan[o].0 == plan[*k].0 && plan[o].1 < plan[*k].1) || done[o]))
            .collect();
        let k = cands[rng.below(cands.len())];
        done[k] = true;
        order.push(k);
    }
    let mut events: Vec<Value> = Vec::new();
    let mut ex: Vec<Value> = Vec::new();
    for k in order {
        let (t, i, w, end, out, err) = plan[k].clone();
        // the script prints the chunks of both channels in a seeded interleaving
        let mut script = String::new();
        let (mut a, mut b) = (0usize, 0usize);
        while a < out.len() || b < err.len() {
            let take_out = b >= err.len() || (a < out.len() && rng.below(2) == 0);
            let (name, size, redirect) = if take_out { (&out[a].0, out[a].1, "") } else { (&err[b].0, err[b].1, " 1>&2") };
            script.push_str(&format!("printf '%s' '{}'{};", String::from_utf8(chunk_bytes(name, size)).unwrap(), redirect));
            if take_out { a += 1 } else { b += 1 }
        }
        if end == "failed" {
            script.push_str("exit 3;");
        }
        let program = ProgramDefinition {
            args: vec!["sh".into(), "-c".into(), script.into()],
            env: Default::default(),
            stdout: StdioDef::Pipe,
            stderr: StdioDef::Pipe,
            stdin: Vec::new(),
            cwd: cwd.clone(),
        };
        let r = hyperqueue::worker::start::verif_run_streamed_task(
            streamers.get(&w).unwrap().clone(),
            program,
            TaskId::new(JobId::new(1), JobTaskId::new(t)),
            InstanceId::new(i),
            dir.clone(),
        )
        .await;
        let ended = match (&r, end) {
            (Ok(_), "finished") => "finished",
            (Err(_), "failed") => "failed",
            _ => "unexpected",
        };
        events.push(json!(["proc", t, i, w, ended]));
        ex.push(json!({"task": t, "inst": i, "worker": w, "end": ended, "file": -1,
                       "out": out.iter().map(|(n, s)| json!([n, s])).collect::<Vec<_>>(),
                       "err": err.iter().map(|(n, s)| json!([n, s])).collect::<Vec<_>>(),
                       "planned_out": out.len(), "planned_err": err.len()}));
    }
    pump().await;
    let _ = panics::take();
    let read = std::panic::catch_unwind(std::panic::AssertUnwindSafe(|| -> Result<Vec<Value>, String> {
        let mut log = OutputLog::open(&dir, None).map_err(|e| e.to_string())?;
        let mut out = Vec::new();
        for t in 1..=n_tasks {
            for c in 0..2u32 {
                match log.verif_read(JobId::new(1), JobTaskId::new(t), c) {
                    Ok(Some((bytes, inst, finished, superseded))) => out.push(
                        json!({"task": t, "chan": c, "found": true, "err": "", "tokens": parse(&bytes), "inst": inst, "finished": finished, "superseded": superseded}),
                    ),
                    Ok(None) => out.push(json!({"task": t, "chan": c, "found": false, "err": "", "tokens": [], "inst": -1, "finished": false, "superseded": []})),
                    Err(e) => out.push(json!({"task": t, "chan": c, "found": true, "err": e.to_string(), "tokens": [], "inst": -1, "finished": false, "superseded": []})),
                }
            }
        }
        Ok(out)
    }));
    let (read, open_err, pan) = match read {
        Ok(Ok(r)) => (r, String::new(), 0),
        Ok(Err(e)) => (vec![], e, 0),
        Err(_) => (vec![], panics::take().map(|p| p.0).unwrap_or_default(), 1),
    };
    drop(streamers);
    json!({"run": run, "execs": ex, "read": read, "open_err": open_err, "pan": pan, "n_files": files_of(&dir).len(), "events": events, "mode": "process", "steps": []})
}

pub fn main(args: &[String]) -> i32 {
    panics::install();
    let arg = |name: &str| -> Option<&str> {
        args.iter().position(|a| a == name).and_then(|i| args.get(i + 1)).map(|s| s.as_str())
    };
    let out_path = arg("--out").unwrap_or("/dev/stdout");
    let mut out = std::io::BufWriter::new(std::fs::File::create(out_path).unwrap());
    let seed: u64 = arg("--seed").unwrap_or("0").parse().unwrap();
    let runs: u64 = arg("--runs").unwrap_or("50").parse().unwrap();
    let first: u64 = arg("--first-run").unwrap_or("0").parse().unwrap();
    let rt = tokio::runtime::Builder::new_current_thread().enable_all().build().unwrap();
    let local = tokio::task::LocalSet::new();
    let mut n_exec = 0usize;
    local.block_on(&rt, async {
        for r in 0..runs {
            let run = first + r;
            // every fifth run uses real processes through the real task future of the worker
            let v = if run % 5 == 3 {
                one_run_proc(run, seed.wrapping_mul(7_919).wrapping_add(run)).await
            } else {
                one_run(run, seed.wrapping_mul(7_919).wrapping_add(run), run % 4 == 0).await
            };
            n_exec += v["execs"].as_array().map(|a| a.len()).unwrap_or(0);
            writeln!(out, "{}", v).unwrap();
        }
    });
    out.flush().unwrap();
    eprintln!("{}", json!({"runs": runs, "executions": n_exec}));
    0
}
