//! Scheduling decisions of the REAL scheduler (batches + MILP + mapping) on small instances:
//! clusters of 1-3 (partly busy) workers, ready queues of single-variant single-node classes with priorities.

use std::io::Write;
use std::path::PathBuf;
use std::rc::Rc;
use std::time::Duration;

use serde_json::{Value, json};
use tako::gateway::{
    CrashLimit, ResourceRequest, ResourceRequestEntry, ResourceRequestVariants, SharedTaskConfiguration, TaskConfiguration, TaskSubmit,
};
use tako::internal::messages::worker::ToWorkerMessage;
use tako::resources::{AllocationRequest, ResourceAmount, ResourceDescriptor, ResourceDescriptorItem};
use tako::server::SchedulerConfig;
use tako::verif::{SimServer, task_id_num};
use tako::{JobId, JobTaskId, TaskId, WorkerId};

use crate::panics;
use crate::walk::Rng;

struct NoEvents;
impl tako::events::EventProcessor for NoEvents {
    fn on_task_finished(&mut self, _: TaskId) {}
    fn on_task_started(&mut self, _: TaskId, _: tako::InstanceId, _: &[WorkerId], _: tako::ResourceVariantId, _: Vec<u8>) {}
    fn on_task_error(&mut self, _: TaskId, _: Vec<TaskId>, _: tako::internal::messages::common::TaskFailInfo) -> Vec<TaskId> {
        vec![]
    }
    fn on_worker_new(&mut self, _: WorkerId, _: &tako::worker::WorkerConfiguration) {}
    fn on_worker_lost(&mut self, _: WorkerId, _: &[TaskId], _: tako::gateway::LostWorkerReason) {}
    fn on_worker_overview(&mut self, _: Box<tako::worker::WorkerOverview>) {}
    fn on_task_notify(&mut self, _: TaskId, _: WorkerId, _: Box<[u8]>) {}
}

fn config(cpus: u32, gpus: u32, k: u32) -> tako::worker::WorkerConfiguration {
    let mut items = vec![ResourceDescriptorItem::range("cpus", 0, cpus - 1)];
    if gpus > 0 {
        items.push(ResourceDescriptorItem::range("gpus", 0, gpus - 1));
    }
    tako::worker::WorkerConfiguration {
        resources: ResourceDescriptor::new(items, Default::default()),
        listen_address: format!("h{k}:1"),
        hostname: format!("h{k}"),
        group: "default".into(),
        work_dir: PathBuf::from("/nonexistent-hqv"),
        heartbeat_interval: Duration::from_secs(8),
        overview_configuration: tako::internal::worker::configuration::OverviewConfiguration::disabled(),
        idle_timeout: None,
        time_limit: None,
        retract_check_interval: Duration::from_secs(3600),
        on_server_lost: tako::worker::ServerLostPolicy::Stop,
        min_utilization: 0.0,
        extra: Default::default(),
    }
}

fn rqv(cpus: u32, gpus: u32) -> ResourceRequestVariants {
    let mut resources = smallvec::SmallVec::new();
    resources.push(ResourceRequestEntry { resource: "cpus".into(), policy: AllocationRequest::Compact(ResourceAmount::new_units(cpus)) });
    if gpus > 0 {
        resources.push(ResourceRequestEntry { resource: "gpus".into(), policy: AllocationRequest::Compact(ResourceAmount::new_units(gpus)) });
    }
    ResourceRequestVariants::new_simple(ResourceRequest { n_nodes: 0, resources, min_time: Duration::ZERO, weight: Default::default() })
}

fn submit(server: &SimServer, id: u32, class: (u32, u32), prio: i32) {
    let rq = server.server_ref().get_or_create_resource_rq_id(&rqv(class.0, class.1));
    let _ = server.server_ref().add_new_tasks(TaskSubmit {
        tasks: vec![TaskConfiguration { id: TaskId::new(JobId::new(1), JobTaskId::new(id)), resource_rq_id: rq, shared_data_index: 0, task_deps: Default::default(), entry: None }],
        shared_data: vec![SharedTaskConfiguration { time_limit: None, priority: prio.into(), crash_limit: CrashLimit::default(), body: Rc::from(vec![0u8]) }],
        adjust_instance_id_and_crash_counters: Default::default(),
    });
}

fn totals_free(snap: &Value) -> Vec<Value> {
    snap["workers"].as_array().unwrap().iter().map(|w| json!({"id": w["id"], "total": w["total"], "free": w["free"]})).collect()
}

fn one_instance(rng: &mut Rng, thorough: bool) -> Value {
    let n_workers = 1 + rng.below(3);
    let with_gpus = thorough && rng.below(3) == 0;
    let workers: Vec<(u32, u32)> = (0..n_workers).map(|_| ([1u32, 2, 2, 4][rng.below(4)], if with_gpus { rng.below(2) as u32 } else { 0 })).collect();
    let n_classes = 1 + rng.below(3);
    let mut classes: Vec<(u32, u32)> = Vec::new();
    while classes.len() < n_classes {
        let c = (1 + rng.below(4) as u32, if with_gpus { rng.below(2) as u32 } else { 0 });
        if !classes.contains(&c) {
            classes.push(c);
        }
    }
    let levels = if thorough { 8 } else { 3 };
    let n_tasks = 1 + rng.below(6);
    let tasks: Vec<(u32, usize, i32)> = (0..n_tasks).map(|k| (10 + k as u32, rng.below(n_classes), 1 + rng.below(levels) as i32)).collect();
    let n_fill = rng.below(3);
    let server = SimServer::new("uid".into(), WorkerId::new(0), SchedulerConfig { proactive_filling_reserve: 1000, proactive_filling_max: 0, mip_time_limit: Duration::from_secs(20) });
    server.server_ref().set_client_events(Box::new(NoEvents));
    let mut server = server;
    let now = std::time::Instant::now();
    let mut wids = Vec::new();
    for (k, (c, g)) in workers.iter().enumerate() {
        let (wid, _, _) = server.connect_worker(config(*c, *g, k as u32), now);
        wids.push(wid);
    }
    // make the cluster partly busy: filler tasks of the highest priority are placed first (and stay assigned)
    for f in 0..n_fill {
        submit(&server, 1 + f as u32, (1, 0), 1000);
    }
    if n_fill > 0 {
        server.schedule(now);
        for w in &wids {
            server.take_messages(*w);
        }
    }
    let pre0 = server.snapshot();
    let fillers_waiting: Vec<u64> = pre0["tasks"].as_array().unwrap().iter().filter(|t| t["st"] == "W").map(|t| t["id"].as_u64().unwrap()).collect();
    for (id, class, prio) in &tasks {
        submit(&server, *id, classes[*class], *prio);
    }
    let pre = server.snapshot();
    let r = server.schedule(now);
    let mut assigned: Vec<Value> = Vec::new();
    let mut prefilled: Vec<u64> = Vec::new();
    for w in &wids {
        for m in server.take_messages(*w) {
            if let ToWorkerMessage::ComputeTasks(msg) = m {
                for t in msg.tasks {
                    if t.resource_rq_variant.is_some() {
                        assigned.push(json!({"t": task_id_num(t.id), "w": w.as_num()}));
                    } else {
                        prefilled.push(task_id_num(t.id));
                    }
                }
            }
        }
    }
    let post = server.snapshot();
    let mut ts: Vec<Value> = tasks.iter().map(|(id, class, prio)| json!({"t": 1000 + *id as u64, "cpus": classes[*class].0 * 10_000, "gpus": classes[*class].1 * 10_000, "prio": prio, "class": class})).collect();
    // fillers that could not be placed are ready tasks of this decision as well
    for f in &fillers_waiting {
        ts.push(json!({"t": f, "cpus": 10_000, "gpus": 0, "prio": 1000, "class": 99}));
    }
    let desc = json!({"workers": workers, "classes": classes, "tasks": tasks, "fill": n_fill});
    let mut h: u64 = 1469598103934665603;
    for b in desc.to_string().bytes() {
        h = (h ^ b as u64).wrapping_mul(1099511628211);
    }
    json!({"id": format!("{h:016x}"), "n_workers": n_workers, "n_classes": ts.iter().map(|t| t["class"].as_u64().unwrap()).collect::<std::collections::BTreeSet<_>>().len(),
           "workers": totals_free(&pre), "workers_after": totals_free(&post), "tasks": ts, "assigned": assigned, "prefilled": prefilled,
           "result": r, "pan": 0, "desc": desc})
}

/// Decisions over VERY LARGE amounts (a sum resource of 2^26 .. 2^30 units, requests of about half of it plus a little):
/// every task fits alone, two do not - by less than what a 32-bit float can tell apart.  Second component of every
/// vector (requests, totals, free) is the large resource in UNITS (TLC's integers are 32-bit), first is cpus in 1/10000.
fn big_instance(rng: &mut Rng) -> Value {
    let k = [26u32, 28, 30][rng.below(3)];
    let size: u32 = 1 << k;
    let ulp_half = 1u32 << (k - 1 - 23 - 1).max(0);   // half an ulp of a float near size/2
    let delta = 1 + rng.below(ulp_half.max(2) as usize - 1) as u32;
    let req = size / 2 + delta;
    let n_tasks = 2 + rng.below(3);
    let server = SimServer::new("uid".into(), WorkerId::new(0), SchedulerConfig { proactive_filling_reserve: 1000, proactive_filling_max: 0, mip_time_limit: Duration::from_secs(20) });
    server.server_ref().set_client_events(Box::new(NoEvents));
    let mut server = server;
    let now = std::time::Instant::now();
    let mut cfg = config(4, 0, 0);
    cfg.resources = ResourceDescriptor::new(vec![ResourceDescriptorItem::range("cpus", 0, 3), ResourceDescriptorItem::sum("gpus", size)], Default::default());
    let (wid, _, _) = server.connect_worker(cfg, now);
    let mut resources = smallvec::SmallVec::new();
    resources.push(ResourceRequestEntry { resource: "cpus".into(), policy: AllocationRequest::Compact(ResourceAmount::new_units(1)) });
    resources.push(ResourceRequestEntry { resource: "gpus".into(), policy: AllocationRequest::Compact(ResourceAmount::new_units(req)) });
    let rqv = ResourceRequestVariants::new_simple(ResourceRequest { n_nodes: 0, resources, min_time: Duration::ZERO, weight: Default::default() });
    let rq = server.server_ref().get_or_create_resource_rq_id(&rqv);
    for id in 0..n_tasks {
        let _ = server.server_ref().add_new_tasks(TaskSubmit {
            tasks: vec![TaskConfiguration { id: TaskId::new(JobId::new(1), JobTaskId::new(10 + id as u32)), resource_rq_id: rq, shared_data_index: 0, task_deps: Default::default(), entry: None }],
            shared_data: vec![SharedTaskConfiguration { time_limit: None, priority: 1.into(), crash_limit: CrashLimit::default(), body: Rc::from(vec![0u8]) }],
            adjust_instance_id_and_crash_counters: Default::default(),
        });
    }
    let r = server.schedule(now);
    let mut assigned: Vec<Value> = Vec::new();
    for m in server.take_messages(wid) {
        if let ToWorkerMessage::ComputeTasks(msg) = m {
            for t in msg.tasks {
                if t.resource_rq_variant.is_some() {
                    assigned.push(json!({"t": task_id_num(t.id), "w": wid.as_num()}));
                }
            }
        }
    }
    let ts: Vec<Value> = (0..n_tasks).map(|id| json!({"t": 1010 + id as u64, "cpus": 10_000, "gpus": req, "prio": 1, "class": 0})).collect();
    let w = json!([{"id": wid.as_num(), "total": [40_000, size], "free": [40_000, size]}]);
    json!({"id": format!("big-{k}-{delta}-{n_tasks}"), "n_workers": 1, "n_classes": 1, "workers": w, "workers_after": w, "tasks": ts, "assigned": assigned, "prefilled": [],
           "result": r, "pan": 0, "desc": {"size": size, "request": req, "tasks": n_tasks}})
}

pub fn main(args: &[String]) -> i32 {
    panics::install();
    let arg = |name: &str| -> Option<&str> {
        args.iter().position(|a| a == name).and_then(|i| args.get(i + 1)).map(|s| s.as_str())
    };
    let out_path = arg("--out").unwrap_or("/dev/stdout");
    let mut out = std::io::BufWriter::new(std::fs::File::create(out_path).unwrap());
    let seed: u64 = arg("--seed").unwrap_or("0").parse().unwrap();
    let n: u64 = arg("--instances").unwrap_or("200").parse().unwrap();
    let thorough = arg("--tier") == Some("thorough");
    let mut rng = Rng::new(seed ^ 0x5C4ED);
    let mut optimal = 0u64;
    let mut panics_n = 0u64;
    for _ in 0..n {
        let _ = panics::take();
        let big = arg("--tier") == Some("big");
        let r = std::panic::catch_unwind(std::panic::AssertUnwindSafe(|| if big { big_instance(&mut rng) } else { one_instance(&mut rng, thorough) }));
        match r {
            Ok(v) => {
                if v["result"] == "done" {
                    optimal += 1;
                }
                writeln!(out, "{}", v).unwrap();
            }
            Err(_) => {
                panics_n += 1;
                let p = panics::take().map(|p| p.0).unwrap_or_default();
                writeln!(out, "{}", json!({"id": "panic", "n_workers": 0, "n_classes": 0, "workers": [], "workers_after": [], "tasks": [], "assigned": [], "prefilled": [], "result": "panic", "pan": 1, "desc": {"loc": p}})).unwrap();
            }
        }
    }
    out.flush().unwrap();
    eprintln!("{}", json!({"instances": n, "optimal": optimal, "panics": panics_n}));
    0
}
