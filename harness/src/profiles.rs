//! Built-in exploration profiles of the cluster harness.
use crate::cluster::*;

fn wk(cpus: u32) -> WorkerKind {
    WorkerKind { cpus, gpus: 0, group: String::new(), time_limit: 0 }
}
fn class(cpus: i64) -> ClassSpec {
    ClassSpec { variants: vec![VariantSpec { cpus, gpus: 0, min_time: 0 }], n_nodes: 0 }
}
fn arr(ids: &[u32], class: usize, prio: i32) -> SubmitSpec {
    SubmitSpec {
        into_open: false, ids: ids.to_vec(), entries: 0, graph: vec![], class, prio,
        crash_limit: 5, time_limit: 0, max_fails: -1, stream: false,
    }
}
fn g(id: u32, deps: &[u32], class: usize, prio: i32) -> GraphTask {
    GraphTask { id, deps: deps.to_vec(), class, prio, tl: 0, pad_mb: 0, pad_fill: 0 }
}
fn big(id: u32, tl: u32, pad_mb: u32, fill: u8) -> GraphTask {
    GraphTask { id, deps: vec![], class: 0, prio: 0, tl, pad_mb, pad_fill: fill }
}
fn graph(tasks: Vec<GraphTask>) -> SubmitSpec {
    SubmitSpec { graph: tasks, ..arr(&[], 0, 0) }
}

fn base(name: &str) -> Profile {
    Profile {
        name: name.to_string(), journal: true, manual_flush: false, reserve: 0, pf_max: 1,
        worker_kinds: vec![wk(1), wk(2)], initial_workers: vec![0, 1], max_connects: 0,
        classes: vec![class(10_000), class(20_000)],
        submits: vec![arr(&[1, 2, 3], 0, 0)], max_submits: 1, opens: 0, losses: 0, cancels: 0,
        fails: 0, launch_fails: 0, stops: 0, ticks: 0, forgets: 0, drain: true, prunes: 0, queue_events: 0, slow_stop: false, finish_running: false,
    }
}

pub fn get(name: &str) -> Option<Profile> {
    let p = match name {
        // fault-free happy path
        "happy" => Profile {
            submits: vec![
                arr(&[1, 2, 3], 0, 0),
                graph(vec![g(1, &[], 0, 0), g(2, &[1], 0, 0), g(3, &[1], 1, 0), g(4, &[2, 3], 0, 0)]),
                // submits that have to be refused: a dependency listed after its consumer, a cycle, a self dependency, a duplicate id
                graph(vec![g(1, &[2], 0, 0), g(2, &[], 0, 0), g(3, &[], 0, 0)]),
                graph(vec![g(1, &[], 0, 0), g(2, &[3], 0, 0), g(3, &[2], 0, 0)]),
                graph(vec![g(1, &[1], 0, 0)]),
                graph(vec![g(1, &[], 0, 0), g(1, &[], 0, 0)]),
            ],
            max_submits: 4, ..base(name)
        },
        // everything on: the default mixed-fault profile
        "mixed" => Profile {
            submits: vec![
                arr(&[1, 2, 3, 4], 0, 0), arr(&[1, 2], 0, 5), arr(&[1, 2], 1, 1),
                graph(vec![g(1, &[], 0, 0), g(2, &[1], 0, 0), g(3, &[1], 1, 2), g(4, &[2, 3], 0, 0)]),
                SubmitSpec { max_fails: 0, ..arr(&[1, 2, 3], 0, 0) },
                SubmitSpec { crash_limit: 1, ..arr(&[1, 2], 0, 3) },
                SubmitSpec { crash_limit: -1, ..arr(&[1], 0, 0) },
                graph(vec![g(1, &[3], 0, 0), g(2, &[], 0, 0), g(3, &[2], 0, 0)]),
            ],
            max_submits: 3, losses: 2, cancels: 2, fails: 2, launch_fails: 1, max_connects: 2,
            ..base(name)
        },
        // prefill / retract / redirect heavy: many equal tasks, later high priority submits, new workers
        "retract" => Profile {
            submits: vec![arr(&[1, 2, 3, 4, 5], 0, 0), arr(&[1], 0, 9), arr(&[1, 2], 1, 9), arr(&[1, 2, 3], 0, 0)],
            max_submits: 3, losses: 1, cancels: 1, fails: 1, max_connects: 2, pf_max: 2,
            ..base(name)
        },
        "cancel" => Profile {
            submits: vec![arr(&[1, 2, 3, 4], 0, 0), arr(&[1], 0, 9),
                graph(vec![g(1, &[], 0, 0), g(2, &[1], 0, 0), g(3, &[2], 0, 0)])],
            max_submits: 3, cancels: 3, fails: 1, losses: 1, pf_max: 2,
            ..base(name)
        },
        "loss" => Profile {
            submits: vec![
                SubmitSpec { crash_limit: 1, ..arr(&[1, 2, 3], 0, 0) },
                SubmitSpec { crash_limit: 2, ..arr(&[1, 2, 3], 0, 1) },
                SubmitSpec { crash_limit: -1, ..arr(&[1, 2], 0, 0) },
                SubmitSpec { crash_limit: 0, ..arr(&[1, 2], 0, 0) },
            ],
            max_submits: 2, losses: 4, max_connects: 4, stops: 1, pf_max: 2,
            ..base(name)
        },
        "maxfails" => Profile {
            submits: vec![
                SubmitSpec { max_fails: 0, ..arr(&[1, 2, 3, 4], 0, 0) },
                SubmitSpec { max_fails: 1, ..arr(&[1, 2, 3, 4, 5], 0, 0) },
                SubmitSpec { max_fails: 1, crash_limit: 1, ..graph(vec![g(1, &[], 0, 0), g(2, &[1], 0, 0), g(3, &[], 0, 0), g(4, &[], 1, 0)]) },
            ],
            max_submits: 2, fails: 3, launch_fails: 1, losses: 2, max_connects: 2, pf_max: 2,
            ..base(name)
        },
        "open" => Profile {
            submits: vec![
                SubmitSpec { into_open: true, ..arr(&[], 0, 0) },
                SubmitSpec { into_open: true, entries: 2, ..arr(&[], 0, 0) },
                SubmitSpec { into_open: true, ..arr(&[5, 6], 0, 0) },
                SubmitSpec { into_open: true, ..arr(&[1, 2], 0, 0) },
                SubmitSpec { into_open: true, ..graph(vec![g(10, &[], 0, 0), g(11, &[10], 0, 0)]) },
                SubmitSpec { into_open: true, ..graph(vec![g(20, &[10], 0, 0)]) },
                SubmitSpec { into_open: true, ..graph(vec![g(30, &[31], 0, 0)]) },
                SubmitSpec { into_open: true, ..graph(vec![g(40, &[41], 0, 0), g(41, &[], 0, 0)]) },
                arr(&[1, 2], 0, 0),
                SubmitSpec { stream: true, ..arr(&[1], 0, 0) },
            ],
            max_submits: 4, opens: 2, cancels: 1, fails: 1, forgets: 1, manual_flush: false,
            ..base(name)
        },
        "stream" => Profile {
            submits: vec![SubmitSpec { stream: true, ..arr(&[1], 0, 0) }, SubmitSpec { stream: true, ..arr(&[1, 2], 0, 0) }],
            max_submits: 2, manual_flush: true, fails: 1,
            ..base(name)
        },
        "mn" => Profile {
            worker_kinds: vec![
                WorkerKind { group: "g1".into(), ..wk(1) },
                WorkerKind { group: "g1".into(), ..wk(2) },
                WorkerKind { group: "g2".into(), ..wk(1) },
            ],
            initial_workers: vec![0, 1, 2],
            classes: vec![class(10_000), ClassSpec { variants: vec![VariantSpec { cpus: 0, gpus: 0, min_time: 0 }], n_nodes: 2 }],
            submits: vec![arr(&[1], 1, 0), arr(&[1, 2], 0, 0), SubmitSpec { crash_limit: 1, ..arr(&[1, 2], 1, 3) }],
            max_submits: 3, losses: 2, cancels: 1, fails: 1, max_connects: 2,
            ..base(name)
        },
        "time" => Profile {
            worker_kinds: vec![WorkerKind { time_limit: 3, ..wk(2) }, wk(1)],
            classes: vec![class(10_000), ClassSpec { variants: vec![VariantSpec { cpus: 10_000, gpus: 0, min_time: 2 }], n_nodes: 0 }],
            submits: vec![
                SubmitSpec { time_limit: 1, ..arr(&[1, 2], 0, 0) },
                arr(&[1, 2, 3], 1, 0),
                SubmitSpec { time_limit: 2, ..arr(&[1], 1, 2) },
            ],
            max_submits: 3, ticks: 4, fails: 1, cancels: 1, pf_max: 2,
            ..base(name)
        },
        // a worker that runs out of time holds pre-sent tasks that need time, then something of higher priority arrives
        "timeretract" => Profile {
            worker_kinds: vec![WorkerKind { time_limit: 3, ..wk(1) }, WorkerKind { time_limit: 4, ..wk(1) }],
            initial_workers: vec![0, 1],
            classes: vec![ClassSpec { variants: vec![VariantSpec { cpus: 10_000, gpus: 0, min_time: 2 }], n_nodes: 0 }, class(10_000)],
            submits: vec![arr(&[1, 2, 3, 4, 5], 0, 0), arr(&[1], 1, 9), arr(&[1, 2], 0, 0), arr(&[1, 2], 1, 0)],
            max_submits: 3, ticks: 5, pf_max: 2, max_connects: 1,
            ..base(name)
        },
        // the backlog of one worker holds tasks of two jobs, both are called back, one of the jobs is canceled meanwhile
        "retract2" => Profile {
            worker_kinds: vec![wk(1)],
            initial_workers: vec![0],
            submits: vec![arr(&[1, 2], 0, 0), arr(&[1, 2, 3], 0, 0), arr(&[1], 0, 9), arr(&[1, 2], 0, 0)],
            max_submits: 4, cancels: 2, pf_max: 2, max_connects: 1,
            ..base(name)
        },
        // several clients that wait for their job (`submit --wait`) and leave as soon as it is reported complete, while others
        // still wait
        "waiters" => Profile {
            submits: vec![
                SubmitSpec { stream: true, ..arr(&[1], 0, 0) },
                SubmitSpec { stream: true, ..arr(&[1, 2], 0, 0) },
                SubmitSpec { stream: true, ..arr(&[1], 0, 0) },
                SubmitSpec { stream: true, ..arr(&[1], 1, 0) },
            ],
            max_submits: 5, fails: 1, cancels: 1,
            ..base(name)
        },
        // a 3-cpu worker, tasks of 2 cpus and of 1 cpu from three jobs: a canceled task whose process is still alive makes the
        // worker reject the next 2-cpu task (request shape blocked); the shape must be re-enabled when the resources come back,
        // also when another task ends in between without freeing enough
        "blocked" => Profile {
            worker_kinds: vec![wk(3)],
            initial_workers: vec![0],
            classes: vec![class(20_000), class(10_000)],
            submits: vec![arr(&[1], 0, 0), arr(&[1, 2], 1, 0), arr(&[1], 0, 0), arr(&[1, 2], 0, 0)],
            max_submits: 4, cancels: 2, fails: 1, pf_max: 1, slow_stop: true,
            ..base(name)
        },
        // workers with `--on-server-lost finish-running` that lose their connection while they run tasks and hold pre-sent ones
        "orphan" => Profile {
            worker_kinds: vec![wk(1)],
            initial_workers: vec![0, 0],
            submits: vec![arr(&[1, 2, 3, 4], 0, 0), arr(&[1, 2], 0, 0)],
            max_submits: 2, losses: 2, pf_max: 2, max_connects: 1, finish_running: true,
            ..base(name)
        },
        // pre-sent tasks with two variants of different size, called back and given back to the same worker
        "variants2" => Profile {
            worker_kinds: vec![WorkerKind { gpus: 1, ..wk(4) }],
            initial_workers: vec![0],
            classes: vec![
                ClassSpec { variants: vec![VariantSpec { cpus: 10_000, gpus: 10_000, min_time: 0 }, VariantSpec { cpus: 30_000, gpus: 0, min_time: 0 }], n_nodes: 0 },
                ClassSpec { variants: vec![VariantSpec { cpus: 10_000, gpus: 10_000, min_time: 0 }], n_nodes: 0 },
                class(10_000),
                class(30_000),
            ],
            submits: vec![arr(&[1, 2, 3, 4], 0, 0), arr(&[1], 1, 0), arr(&[1], 2, 9), arr(&[1], 3, 0), arr(&[1], 2, 9)],
            max_submits: 5, pf_max: 2,
            ..base(name)
        },
        // task descriptions so large that the server has to split the ComputeTasks batch of one worker into several messages;
        // tasks with equal descriptions (and time limits) on both sides of the split
        "bigbody" => Profile {
            worker_kinds: vec![wk(4)],
            initial_workers: vec![0],
            submits: vec![
                graph(vec![big(1, 1, 17, 0), big(2, 0, 17, 1), big(3, 0, 0, 0), big(4, 1, 17, 0)]),
                graph(vec![big(1, 2, 17, 2), big(2, 0, 0, 0), big(3, 1, 17, 3), big(4, 2, 17, 2)]),
            ],
            max_submits: 1, ticks: 3,
            ..base(name)
        },
        "variants" => Profile {
            worker_kinds: vec![WorkerKind { gpus: 1, ..wk(2) }, wk(2)],
            classes: vec![
                ClassSpec { variants: vec![VariantSpec { cpus: 10_000, gpus: 10_000, min_time: 0 }, VariantSpec { cpus: 20_000, gpus: 0, min_time: 0 }], n_nodes: 0 },
                class(10_000),
                class(-1),
                class(5_000),
            ],
            submits: vec![arr(&[1, 2, 3], 0, 0), arr(&[1, 2], 1, 0), arr(&[1], 2, 1), arr(&[1, 2, 3], 3, 0)],
            max_submits: 3, fails: 1, cancels: 1, losses: 1, max_connects: 1, pf_max: 2,
            ..base(name)
        },
        // journal-centred: everything that leaves records, with prunes and queue records
        "jmixed" => Profile {
            submits: vec![
                arr(&[1, 2, 3], 0, 0), arr(&[1, 2], 0, 5),
                graph(vec![g(1, &[], 0, 0), g(2, &[1], 0, 0), g(3, &[1], 1, 2), g(4, &[2, 3], 0, 0)]),
                SubmitSpec { max_fails: 0, ..arr(&[1, 2, 3], 0, 0) },
                SubmitSpec { crash_limit: 2, ..arr(&[1, 2], 0, 3) },
                SubmitSpec { into_open: true, ..arr(&[], 0, 0) },
                SubmitSpec { into_open: true, entries: 2, ..arr(&[], 0, 0) },
                SubmitSpec { into_open: true, ..graph(vec![g(10, &[], 0, 0), g(11, &[10], 0, 0)]) },
                SubmitSpec { into_open: true, ..graph(vec![g(20, &[10], 0, 0)]) },
            ],
            max_submits: 4, opens: 2, losses: 3, cancels: 2, fails: 2, launch_fails: 1, max_connects: 3,
            forgets: 1, prunes: 2, queue_events: 4, drain: false,
            ..base(name)
        },
        // journal-centred: ONE open job fed by several graph submits whose tasks depend on tasks of EARLIER submits (restore_job
        // re-creates one batch per Submit record: a dependency that crosses batches has to survive the restart as long as its
        // target is still pending), chains of three submits, a refused submit (unknown dependency), a closed job next to it
        "jopen" => Profile {
            submits: vec![
                SubmitSpec { into_open: true, ..graph(vec![g(10, &[], 0, 0), g(11, &[10], 0, 0)]) },
                SubmitSpec { into_open: true, ..graph(vec![g(20, &[10], 0, 0), g(21, &[11, 20], 0, 0)]) },
                SubmitSpec { into_open: true, ..graph(vec![g(30, &[20], 0, 1)]) },
                SubmitSpec { into_open: true, ..graph(vec![g(40, &[10, 41], 0, 0)]) },
                SubmitSpec { into_open: true, ..graph(vec![g(50, &[11], 1, 0), g(51, &[50, 10], 0, 0)]) },
                arr(&[1, 2], 0, 0),
            ],
            max_submits: 5, opens: 1, losses: 1, cancels: 1, fails: 1, max_connects: 1, prunes: 1, drain: false,
            ..base(name)
        },
        "jloss" => Profile {
            submits: vec![
                SubmitSpec { crash_limit: 2, ..arr(&[1, 2, 3], 0, 0) },
                SubmitSpec { crash_limit: 3, ..arr(&[1, 2], 0, 1) },
                SubmitSpec { crash_limit: 0, ..arr(&[1, 2], 0, 0) },
            ],
            max_submits: 2, losses: 5, max_connects: 5, prunes: 2, pf_max: 2, drain: false,
            ..base(name)
        },
        "jmn" => Profile {
            worker_kinds: vec![
                WorkerKind { group: "g1".into(), ..wk(1) },
                WorkerKind { group: "g1".into(), ..wk(2) },
            ],
            initial_workers: vec![0, 1],
            classes: vec![class(10_000), ClassSpec { variants: vec![VariantSpec { cpus: 0, gpus: 0, min_time: 0 }], n_nodes: 2 }],
            submits: vec![SubmitSpec { crash_limit: 2, ..arr(&[1], 1, 0) }, arr(&[1, 2], 0, 0), SubmitSpec { crash_limit: 3, ..arr(&[1, 2], 1, 3) }],
            max_submits: 3, losses: 3, cancels: 1, fails: 1, max_connects: 4, prunes: 1, drain: false,
            ..base(name)
        },
        _ => return None,
    };
    Some(p)
}

pub const ALL: &[&str] = &["jmixed", "jopen", "jloss", "jmn", "happy", "mixed", "retract", "cancel", "loss", "maxfails", "open", "stream", "mn", "time", "variants", "timeretract", "retract2", "variants2", "bigbody"];
