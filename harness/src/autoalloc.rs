//! Automatic allocation: the real autoalloc state machine (handle_message / perform_submits /
//! do_periodic_update / remove_queue through hyperqueue::server::autoalloc::verif::SimAutoAlloc) driven by a
//! seeded environment: demand from real waiting tasks in a real core, submission results and external
//! status reports dictated through a mock QueueHandler, worker connect/loss notifications in arbitrary
//! (also contradictory) orders, pause/resume/remove requests and virtual time.

use std::cell::RefCell;
use std::collections::{BTreeMap, VecDeque};
use std::future::Future;
use std::io::Write;
use std::path::PathBuf;
use std::pin::Pin;
use std::rc::Rc;
use std::time::Duration;

use hyperqueue::common::manager::info::ManagerType;
use hyperqueue::server::autoalloc::verif::{
    Allocation, AllocationExternalStatus, AllocationStatusMap, AllocationSubmissionResult, QueueHandler, SimAutoAlloc,
    SubmitMode,
};
use hyperqueue::server::autoalloc::{LostWorkerDetails, QueueId, QueueInfo, QueueParameters};
use hyperqueue::server::event::journal::EventStreamMessage;
use hyperqueue::server::event::streamer::EventStreamer;
use serde_json::{Value, json};
use tako::gateway::{
    CrashLimit, LostWorkerReason, ResourceRequest, ResourceRequestEntry, ResourceRequestVariants, SharedTaskConfiguration,
    TaskConfiguration, TaskSubmit,
};
use tako::resources::{AllocationRequest, ResourceAmount, ResourceDescriptor};
use tako::server::SchedulerConfig;
use tako::verif::SimServer;
use tako::{JobId, JobTaskId, TaskId, WorkerId};
use tokio::sync::mpsc;

use crate::cluster::event_json;
use crate::panics;
use crate::walk::Rng;

#[derive(Default)]
struct MockShared {
    submit_results: VecDeque<bool>,
    next_alloc: u32,
    calls: Vec<Value>,
    removes: Vec<String>,
    status: BTreeMap<String, &'static str>,
    status_global_error: bool,
}

struct MockHandler {
    shared: Rc<RefCell<MockShared>>,
}

impl QueueHandler for MockHandler {
    fn submit_allocation(
        &mut self,
        queue_id: QueueId,
        _queue_info: &QueueInfo,
        worker_count: u64,
        _mode: SubmitMode,
    ) -> Pin<Box<dyn Future<Output = anyhow::Result<AllocationSubmissionResult>>>> {
        let shared = self.shared.clone();
        Box::pin(async move {
            let mut s = shared.borrow_mut();
            let ok = s.submit_results.pop_front().unwrap_or(true);
            let dir: PathBuf = PathBuf::from("/nonexistent-hqv-alloc");
            if ok {
                s.next_alloc += 1;
                let id = format!("a{}", s.next_alloc);
                s.calls.push(json!({"q": queue_id, "workers": worker_count, "ok": true, "a": id}));
                s.status.insert(id.clone(), "queued");
                Ok(AllocationSubmissionResult::new(Ok(id), dir.into()))
            } else {
                s.calls.push(json!({"q": queue_id, "workers": worker_count, "ok": false, "a": ""}));
                Ok(AllocationSubmissionResult::new(Err(anyhow::anyhow!("qsub failed")), dir.into()))
            }
        })
    }

    fn get_status_of_allocations(
        &self,
        allocations: &[&Allocation],
    ) -> Pin<Box<dyn Future<Output = anyhow::Result<AllocationStatusMap>>>> {
        let shared = self.shared.clone();
        let ids: Vec<String> = allocations.iter().map(|a| a.id.clone()).collect();
        Box::pin(async move {
            let s = shared.borrow();
            if s.status_global_error {
                return Err(anyhow::anyhow!("qstat failed"));
            }
            let mut map = AllocationStatusMap::default();
            let now = hyperqueue::common::utils::time::AbsoluteTime::now();
            for id in ids {
                match s.status.get(&id).copied().unwrap_or("missing") {
                    "queued" => {
                        map.insert(id, Ok(AllocationExternalStatus::Queued));
                    }
                    "running" => {
                        map.insert(id, Ok(AllocationExternalStatus::Running));
                    }
                    "finished" => {
                        map.insert(id, Ok(AllocationExternalStatus::Finished { started_at: None, finished_at: now }));
                    }
                    "failed" => {
                        map.insert(id, Ok(AllocationExternalStatus::Failed { started_at: None, finished_at: now }));
                    }
                    "error" => {
                        map.insert(id, Err(anyhow::anyhow!("status error")));
                    }
                    _ => {}
                }
            }
            Ok(map)
        })
    }

    fn remove_allocation(&self, allocation: &Allocation) -> Pin<Box<dyn Future<Output = anyhow::Result<()>>>> {
        let shared = self.shared.clone();
        let id = allocation.id.clone();
        Box::pin(async move {
            shared.borrow_mut().removes.push(id);
            Ok(())
        })
    }
}

struct NoEvents;
impl tako::events::EventProcessor for NoEvents {
    fn on_task_finished(&mut self, _: TaskId) {}
    fn on_task_started(&mut self, _: TaskId, _: tako::InstanceId, _: &[WorkerId], _: tako::ResourceVariantId, _: Vec<u8>) {}
    fn on_task_error(&mut self, _: TaskId, _: Vec<TaskId>, _: tako::internal::messages::common::TaskFailInfo) -> Vec<TaskId> {
        vec![]
    }
    fn on_worker_new(&mut self, _: WorkerId, _: &tako::worker::WorkerConfiguration) {}
    fn on_worker_lost(&mut self, _: WorkerId, _: &[TaskId], _: LostWorkerReason) {}
    fn on_worker_overview(&mut self, _: Box<tako::worker::WorkerOverview>) {}
    fn on_task_notify(&mut self, _: TaskId, _: WorkerId, _: Box<[u8]>) {}
}

/// The queue id a new allocation queue gets on a server that has just been restarted from a journal: the autoalloc state is
/// seeded with the restorer's counter, every surviving queue is re-created under its recorded id (as `start_server` does),
/// then a new queue is added.
pub fn live_next_queue_id(server_ref: tako::control::ServerRef, counter: u32, surviving: &[u32]) -> u32 {
    let events = EventStreamer::new(None);
    let shared = Rc::new(RefCell::new(MockShared::default()));
    let mut aa = SimAutoAlloc::new(server_ref, events, counter);
    let mut rng = Rng::new(7);
    // (the order in which the server visits the queues is the iteration order of a hash map: take the least favourable one)
    let mut ids = surviving.to_vec();
    ids.sort_unstable_by(|a, b| b.cmp(a));
    for id in ids {
        aa.restore_queue(id, params(&mut rng), Box::new(MockHandler { shared: shared.clone() }));
    }
    aa.add_queue(params(&mut rng), Box::new(MockHandler { shared }), vec![Duration::ZERO], 2, 2)
}

const UNIT: Duration = Duration::from_secs(10);

fn params(rng: &mut Rng) -> QueueParameters {
    QueueParameters {
        manager: ManagerType::Slurm,
        max_workers_per_alloc: 1 + rng.below(2) as u32,
        backlog: 1 + rng.below(2) as u32,
        timelimit: Duration::from_secs(3600),
        name: None,
        max_worker_count: [None, Some(2), Some(3)][rng.below(3)],
        min_utilization: 0.0,
        additional_args: vec![],
        worker_start_cmd: None,
        worker_stop_cmd: None,
        worker_wrap_cmd: None,
        cli_resource_descriptor: if rng.below(3) == 0 { None } else { Some(ResourceDescriptor::simple_cpus(2)) },
        worker_args: vec![],
        idle_timeout: None,
    }
}

fn worker_config() -> tako::worker::WorkerConfiguration {
    tako::worker::WorkerConfiguration {
        resources: ResourceDescriptor::simple_cpus(2),
        listen_address: "h:1".into(),
        hostname: "h".into(),
        group: "default".into(),
        work_dir: PathBuf::from("/nonexistent-hqv"),
        heartbeat_interval: Duration::from_secs(8),
        overview_configuration: tako::internal::worker::configuration::OverviewConfiguration::disabled(),
        idle_timeout: None,
        time_limit: None,
        retract_check_interval: Duration::from_secs(3600),
        on_server_lost: tako::worker::ServerLostPolicy::Stop,
        min_utilization: 0.0,
        extra: Default::default(),
    }
}

/// kinds of waiting tasks: 0 small (1 cpu), 1 big (8 cpus), 2 long (min_time 2h), 3 multi-node (2 nodes),
/// 4 gpu (1 cpu + 1 gpus: a resource the queues' command lines do not mention and the real workers do not have)
fn task_rqv(kind: u32) -> ResourceRequestVariants {
    let mut resources = smallvec::SmallVec::new();
    if kind != 3 {
        resources.push(ResourceRequestEntry {
            resource: "cpus".to_string(),
            policy: AllocationRequest::Compact(ResourceAmount::new_units(if kind == 1 { 8 } else { 1 })),
        });
    }
    if kind == 4 {
        resources.push(ResourceRequestEntry {
            resource: "gpus".to_string(),
            policy: AllocationRequest::Compact(ResourceAmount::new_units(1)),
        });
    }
    ResourceRequestVariants::new_simple(ResourceRequest {
        n_nodes: if kind == 3 { 2 } else { 0 },
        resources,
        min_time: if kind == 2 { Duration::from_secs(7200) } else { Duration::ZERO },
        weight: Default::default(),
    })
}

async fn one_run(run: u64, seed: u64, steps: usize, out: &mut dyn Write) -> (usize, bool) {
    let mut rng = Rng::new(seed);
    let (tx, mut rx) = mpsc::unbounded_channel::<EventStreamMessage>();
    let events = EventStreamer::new(Some(tx));
    let server = SimServer::new("uid".into(), WorkerId::new(0), SchedulerConfig { proactive_filling_reserve: 16, proactive_filling_max: 40, mip_time_limit: Duration::from_secs(5) });
    server.server_ref().set_client_events(Box::new(NoEvents));
    let shared = Rc::new(RefCell::new(MockShared::default()));
    let mut aa = SimAutoAlloc::new(server.server_ref(), events.clone(), 1);
    let n_queues = 1 + rng.below(2);
    let delays = vec![Duration::ZERO, UNIT, UNIT * 2];
    let mut queue_cfg: Vec<Value> = Vec::new();
    for _ in 0..n_queues {
        let p = params(&mut rng);
        let cfg = json!({"backlog": p.backlog, "max_per_alloc": p.max_workers_per_alloc,
                         "max_workers": p.max_worker_count.map(|x| x as i64).unwrap_or(-1), "has_descriptor": p.cli_resource_descriptor.is_some()});
        let id = aa.add_queue(p, Box::new(MockHandler { shared: shared.clone() }), delays.clone(), 2, 2);
        let mut cfg = cfg;
        cfg["id"] = json!(id);
        queue_cfg.push(cfg);
    }
    let mut now_units: u64 = 0;
    let mut next_task: u32 = 1;
    let mut tasks: BTreeMap<u32, u32> = BTreeMap::new(); // task id -> kind
    let mut next_worker: u32 = 1;
    let mut workers: Vec<(u32, String)> = Vec::new(); // (worker, allocation it claims)
    let drain = |rx: &mut mpsc::UnboundedReceiver<EventStreamMessage>| -> Vec<Value> {
        let mut v = Vec::new();
        while let Ok(m) = rx.try_recv() {
            if let EventStreamMessage::Event(e) = m {
                v.push(event_json(&e.payload));
            }
        }
        v
    };
    let ev0 = drain(&mut rx);
    writeln!(out, "{}", json!({"run": run, "i": 0, "a": "Reset", "args": {"queues": queue_cfg, "delays": [0, 1, 2], "max_sub_fails": 2, "max_alloc_fails": 2},
                               "demand": [], "demand_all": [], "calls": [], "removes": [], "ev": ev0, "st": aa.snapshot(), "tasks": [0, 0, 0, 0, 0], "now": 0, "pan": 0, "ploc": ""})).unwrap();
    let mut n = 0usize;
    for i in 1..=steps {
        let snap = aa.snapshot();
        let qids: Vec<u32> = snap["queues"].as_array().unwrap().iter().map(|q| q["id"].as_u64().unwrap() as u32).collect();
        let alloc_ids: Vec<String> = snap["queues"].as_array().unwrap().iter().flat_map(|q| q["allocs"].as_array().unwrap().iter().map(|a| a["id"].as_str().unwrap().to_string())).collect();
        let active_allocs: Vec<String> = snap["queues"].as_array().unwrap().iter().flat_map(|q| q["allocs"].as_array().unwrap().iter().filter(|a| a["st"] == "Queued" || a["st"] == "Running").map(|a| a["id"].as_str().unwrap().to_string())).collect();
        // "status error storm" runs: the batch system answers status queries mostly with errors, so that allocations reach the
        // limits on status errors (10 while queued, 20 while running) - which a uniform choice of reports practically never does
        let storm = run % 4 == 2;
        let choice = if storm && !active_allocs.is_empty() && rng.below(100) < 55 { 60 } else { rng.below(100) };
        if std::env::var("HQV_DEBUG").is_ok() { eprintln!("choice {choice}"); }
        let _ = panics::take();
        let mut demand: Vec<Value> = Vec::new();
        let mut demand_all: Vec<Value> = Vec::new();
        let (a, args): (&str, Value) = if choice < 26 {
            // scheduling tick
            let results: Vec<bool> = (0..4).map(|_| rng.below(4) != 0).collect();
            shared.borrow_mut().submit_results = results.iter().copied().collect();
            demand = aa.demand().into_iter().map(|(q, sn, mna, mnp)| json!({"q": q, "sn": sn, "mn_allocs": mna, "mn_per": mnp})).collect();
            demand_all = aa.demand_of(true).into_iter().map(|(q, sn, mna, mnp)| json!({"q": q, "sn": sn, "mn_allocs": mna, "mn_per": mnp})).collect();
            let ok = aa.perform_submits().await;
            ("Submits", json!({"results": results, "ok": ok}))
        } else if choice < 38 {
            let d = 1 + rng.below(2) as u64;
            now_units += d;
            aa.shift_time(UNIT * d as u32);
            ("Tick", json!({"d": d}))
        } else if choice < 50 {
            let kind = [0u32, 0, 0, 1, 2, 3, 4, 4][rng.below(8)];
            let id = next_task;
            next_task += 1;
            let rq = server.server_ref().get_or_create_resource_rq_id(&task_rqv(kind));
            let _ = server.server_ref().add_new_tasks(TaskSubmit {
                tasks: vec![TaskConfiguration { id: TaskId::new(JobId::new(1), JobTaskId::new(id)), resource_rq_id: rq, shared_data_index: 0, task_deps: Default::default(), entry: None }],
                shared_data: vec![SharedTaskConfiguration { time_limit: None, priority: 0.into(), crash_limit: CrashLimit::default(), body: Rc::from(vec![0u8]) }],
                adjust_instance_id_and_crash_counters: Default::default(),
            });
            tasks.insert(id, kind);
            ("AddTask", json!({"kind": kind}))
        } else if choice < 55 {
            let ids: Vec<TaskId> = tasks.keys().map(|t| TaskId::new(JobId::new(1), JobTaskId::new(*t))).collect();
            if !ids.is_empty() {
                server.server_ref().cancel_tasks(&ids);
            }
            tasks.clear();
            ("ClearTasks", json!({}))
        } else if choice < 67 {
            // external status reports, also contradictory ones
            let mut st = BTreeMap::new();
            for id in &active_allocs {
                let s = if storm && rng.below(100) < 88 {
                    "error"
                } else if storm {
                    ["queued", "running", "running", "running"][rng.below(4)]
                } else {
                    ["queued", "running", "running", "finished", "failed", "error", "missing", "queued"][rng.below(8)]
                };
                st.insert(id.clone(), s);
            }
            let global = rng.below(12) == 0;
            {
                let mut sh = shared.borrow_mut();
                for (k, v) in &st {
                    sh.status.insert(k.clone(), v);
                }
                sh.status_global_error = global;
            }
            aa.periodic_update().await;
            ("Refresh", json!({"status": st.iter().map(|(k, v)| json!({"a": k, "s": v})).collect::<Vec<_>>(), "global_error": global}))
        } else if choice < 78 {
            // a worker connects, naming a known or an unknown allocation; worker ids come from a small pool so that
            // duplicates, loss-before-connect and extras beyond the target size all occur
            let alloc = if !alloc_ids.is_empty() && rng.below(6) != 0 { alloc_ids[rng.below(alloc_ids.len())].clone() } else { "unknown".to_string() };
            let w = if rng.below(3) == 0 { 1 + rng.below(6) as u32 } else { next_worker += 1; 6 + next_worker };
            workers.push((w, alloc.clone()));
            aa.worker_connected(WorkerId::new(w), &alloc, worker_config()).await;
            ("WorkerConnected", json!({"w": w, "alloc": alloc, "known": aa.queue_of_allocation(&alloc).is_some()}))
        } else if choice < 90 {
            // a worker is lost: one that connected, or one that never connected (loss before connect / extra)
            let (w, alloc) = if !workers.is_empty() && rng.below(3) != 0 {
                workers[rng.below(workers.len())].clone()
            } else {
                (1 + rng.below(6) as u32, if !alloc_ids.is_empty() { alloc_ids[rng.below(alloc_ids.len())].clone() } else { "unknown".to_string() })
            };
            let crashed = rng.below(2) == 0;
            let details = LostWorkerDetails {
                reason: if crashed { LostWorkerReason::ConnectionLost } else { LostWorkerReason::TimeLimitReached },
                lifetime: Duration::from_secs(if crashed { 5 } else { 3000 }),
            };
            let known = aa.queue_of_allocation(&alloc).is_some();
            aa.worker_lost(WorkerId::new(w), &alloc, details).await;
            if rng.below(3) != 0 {
                // usually the same worker is not lost twice, sometimes it is (duplicate notification)
                workers.retain(|(ww, _)| *ww != w);
            }
            ("WorkerLost", json!({"w": w, "alloc": alloc, "crashed": crashed, "known": known}))
        } else if choice < 92 && !qids.is_empty() {
            let q = qids[rng.below(qids.len())];
            let ok = aa.pause(q).await;
            ("Pause", json!({"q": q, "ok": ok}))
        } else if choice < 99 && !qids.is_empty() {
            let q = qids[rng.below(qids.len())];
            let ok = aa.resume(q).await;
            ("Resume", json!({"q": q, "ok": ok}))
        } else if !qids.is_empty() {
            let q = qids[rng.below(qids.len())];
            let force = rng.below(2) == 0;
            let ok = aa.remove_queue(q, force).await;
            ("RemoveQueue", json!({"q": q, "force": force, "ok": ok}))
        } else {
            ("Noop", json!({}))
        };
        let p = panics::take();
        let ev = drain(&mut rx);
        let (calls, removes) = {
            let mut s = shared.borrow_mut();
            (std::mem::take(&mut s.calls), std::mem::take(&mut s.removes))
        };
        let mut kinds = [0u32; 5];
        for k in tasks.values() {
            kinds[*k as usize] += 1;
        }
        let st = if p.is_some() { json!({"queues": []}) } else { aa.snapshot() };
        writeln!(out, "{}", json!({"run": run, "i": i, "a": a, "args": args, "demand": demand, "demand_all": demand_all, "calls": calls, "removes": removes, "ev": ev, "st": st,
                                   "tasks": kinds, "now": now_units, "pan": if p.is_some() {1} else {0}, "ploc": p.map(|x| x.0).unwrap_or_default()})).unwrap();
        n += 1;
    }
    (n, false)
}

pub fn main(args: &[String]) -> i32 {
    panics::install();
    let arg = |name: &str| -> Option<&str> {
        args.iter().position(|a| a == name).and_then(|i| args.get(i + 1)).map(|s| s.as_str())
    };
    let out_path = arg("--out").unwrap_or("/dev/stdout");
    let mut out = std::io::BufWriter::new(std::fs::File::create(out_path).unwrap());
    let seed: u64 = arg("--seed").unwrap_or("0").parse().unwrap();
    let runs: u64 = arg("--runs").unwrap_or("20").parse().unwrap();
    let steps: usize = arg("--steps").unwrap_or("60").parse().unwrap();
    let first: u64 = arg("--first-run").unwrap_or("0").parse().unwrap();
    let rt = tokio::runtime::Builder::new_current_thread().enable_all().build().unwrap();
    let local = tokio::task::LocalSet::new();
    let mut total = 0usize;
    local.block_on(&rt, async {
        for r in 0..runs {
            let run = first + r;
            let (n, _) = one_run(run, seed.wrapping_mul(104_729).wrapping_add(run), steps, &mut out).await;
            total += n;
        }
    });
    out.flush().unwrap();
    eprintln!("{}", json!({"runs": runs, "steps": total}));
    0
}
