//! Drivers of the cluster harness: seeded random walks, replay of choice sequences, and the
//! fault-free drain that extends every explored path to quiescence.

use std::io::Write;

use futures::FutureExt;
use serde_json::{Value, json};

use crate::cluster::{Choice, Cluster, Profile, line, take_panic};
use crate::{panics, profiles};

pub struct Rng(u64);
impl Rng {
    pub fn new(seed: u64) -> Self {
        // hash the seed first: consecutive seeds must not give shifted copies of one stream
        let mut z = seed.wrapping_add(0xD1B54A32D192ED03);
        z = (z ^ (z >> 33)).wrapping_mul(0xFF51AFD7ED558CCD);
        z = (z ^ (z >> 33)).wrapping_mul(0xC4CEB9FE1A85EC53);
        Rng(z ^ (z >> 33))
    }
    pub fn next(&mut self) -> u64 {
        self.0 = self.0.wrapping_add(0x9E3779B97F4A7C15);
        let mut z = self.0;
        z = (z ^ (z >> 30)).wrapping_mul(0xBF58476D1CE4E5B9);
        z = (z ^ (z >> 27)).wrapping_mul(0x94D049BB133111EB);
        z ^ (z >> 31)
    }
    pub fn f(&mut self) -> f64 {
        (self.next() >> 11) as f64 / (1u64 << 53) as f64
    }
    pub fn below(&mut self, n: usize) -> usize {
        (self.next() % n as u64) as usize
    }
}

fn weight(c: &Choice, bias: &Bias) -> f64 {
    match c {
        Choice::S2W { .. } => 4.0 * bias.deliver,
        Choice::W2S { .. } => 4.0 * bias.deliver,
        Choice::Schedule => 4.0 * bias.schedule,
        Choice::Exit { ok: true, .. } => 2.0 * bias.exit,
        Choice::Exit { ok: false, .. } => 0.7,
        Choice::Die { .. } => 1.2,
        Choice::Submit { .. } => 1.5 * bias.submit,
        Choice::Open => 1.0,
        Choice::Close { .. } => 0.5,
        Choice::Cancel { .. } => 0.6 * bias.fault,
        Choice::Forget { .. } => 0.3,
        Choice::Lose { reason, .. } => (if reason == "connection" { 0.3 } else { 0.1 }) * bias.fault,
        Choice::Connect { .. } => 0.4,
        Choice::Stop { .. } => 0.2,
        Choice::Tick => 0.8,
        Choice::FlushAck => 1.5,
        Choice::FailLaunch { .. } => 0.4,
        Choice::Query { .. } => 0.0,
        Choice::Prune => 0.3,
        Choice::QueueEvent { .. } => 0.3,
    }
}

/// Per-run random bias so that different runs have different "temperatures"
struct Bias {
    deliver: f64,
    schedule: f64,
    exit: f64,
    submit: f64,
    fault: f64,
}

fn pick(rng: &mut Rng, choices: &[Choice], bias: &Bias) -> usize {
    let ws: Vec<f64> = choices.iter().map(|c| weight(c, bias)).collect();
    let total: f64 = ws.iter().sum();
    if total <= 0.0 {
        return rng.below(choices.len());
    }
    let mut x = rng.f() * total;
    for (i, w) in ws.iter().enumerate() {
        if x < *w {
            return i;
        }
        x -= *w;
    }
    choices.len() - 1
}

pub struct RunStats {
    pub steps: usize,
    pub panicked: bool,
    pub quiescent: bool,
    pub diverged: bool,
}

/// Watchdog: the clock of the simulation is paused, so a step that takes a minute of real time is a step that never ends.
/// The profile and the choices applied so far (the last one is the step that hangs) are written to <out>.hang, exit code 3.
static PENDING: std::sync::Mutex<Option<(std::time::Instant, String)>> = std::sync::Mutex::new(None);
thread_local! {
    static HISTORY: std::cell::RefCell<(Value, Vec<Value>)> = std::cell::RefCell::new((Value::Null, Vec::new()));
}

pub fn start_watchdog(out_path: &str) {
    let hang_path = format!("{}.hang", out_path);
    std::thread::spawn(move || loop {
        std::thread::sleep(std::time::Duration::from_millis(500));
        let g = PENDING.lock().unwrap();
        if let Some((t0, v)) = g.as_ref() {
            if t0.elapsed() > std::time::Duration::from_secs(60) {
                std::fs::write(&hang_path, v).unwrap();
                std::process::exit(3);
            }
        }
    });
}

async fn step(
    c: &mut Cluster,
    choice: &Choice,
    run: u64,
    i: usize,
    out: &mut dyn Write,
) -> bool {
    if i <= 1 {
        HISTORY.with(|h| *h.borrow_mut() = (serde_json::to_value(&c.profile).unwrap(), Vec::new()));
    }
    HISTORY.with(|h| {
        let mut h = h.borrow_mut();
        h.1.push(serde_json::to_value(choice).unwrap());
        *PENDING.lock().unwrap() = Some((
            std::time::Instant::now(),
            json!({"run": run, "i": i, "profile": h.0, "choices": h.1, "no_drain": true}).to_string(),
        ));
    });
    let r = std::panic::AssertUnwindSafe(c.apply(choice)).catch_unwind().await;
    *PENDING.lock().unwrap() = None;
    let p = take_panic();
    match r {
        Ok((a, args, resp)) => {
            if p.is_some() {
                c.dead = true;
            }
            let l = line(run, i, &a, args, resp, c, p.clone());
            writeln!(out, "{}", l).unwrap();
            p.is_none()
        }
        Err(_) => {
            c.dead = true;
            let l = line(
                run,
                i,
                "Panic",
                json!({"choice": serde_json::to_value(choice).unwrap()}),
                json!({}),
                c,
                Some(p.unwrap_or(json!({"loc": "?", "msg": "?"}))),
            );
            writeln!(out, "{}", l).unwrap();
            false
        }
    }
}

pub enum Source<'a> {
    Random { seed: u64, steps: usize },
    Replay { choices: &'a [Choice] },
    /// behaviour of the TLA+ model: a step that is not possible in the real run is adapted (same task on another
    /// worker) or skipped; placement decisions stay with the real scheduler
    Guided { choices: &'a [Choice] },
}

pub fn run_one(
    profile: &Profile,
    run: u64,
    source: Source,
    out: &mut dyn Write,
    taken: &mut Vec<Choice>,
) -> RunStats {
    run_one_with(profile, run, source, out, taken, None)
}

pub fn run_one_with(
    profile: &Profile,
    run: u64,
    source: Source,
    out: &mut dyn Write,
    taken: &mut Vec<Choice>,
    mut post: Option<&mut dyn FnMut(&Cluster)>,
) -> RunStats {
    let rt = tokio::runtime::Builder::new_current_thread()
        .enable_all()
        .start_paused(true)
        .build()
        .unwrap();
    let local = tokio::task::LocalSet::new();
    let stats = local.block_on(&rt, async {
        let mut stats = RunStats {
            steps: 0,
            panicked: false,
            quiescent: false,
            diverged: false,
        };
        let created = std::panic::AssertUnwindSafe(Cluster::new(profile.clone()))
            .catch_unwind()
            .await;
        let mut c = match created {
            Ok(c) => c,
            Err(_) => {
                let p = take_panic();
                writeln!(out, "{}", json!({"run": run, "i": 0, "a": "Reset", "args": {"profile": profile}, "resp": {}, "sent": [], "ev": [], "live": [], "starts": [], "stops": [], "pan": 1, "panic": p.unwrap_or(json!({"loc": "?", "msg": "?"})), "st": {}})).unwrap();
                stats.panicked = true;
                return stats;
            }
        };
        {
            let _ = c.take_step_logs();
            let st = c.snapshot();
            writeln!(
                out,
                "{}",
                json!({"run": run, "i": 0, "a": "Reset", "args": {"profile": profile, "requests": c.requests()}, "resp": {}, "sent": [], "ev": [],
                       "live": [], "starts": [], "stops": [], "pan": 0, "panic": {"loc": "", "msg": ""}, "st": st})
            )
            .unwrap();
        }
        let mut i = 1usize;
        match source {
            Source::Random { seed, steps } => {
                let mut rng = Rng::new(seed);
                let bias = Bias {
                    deliver: 0.3 + 1.7 * rng.f(),
                    schedule: 0.2 + 1.8 * rng.f(),
                    exit: 0.2 + 1.8 * rng.f(),
                    submit: 0.5 + 1.5 * rng.f(),
                    fault: 0.3 + 2.0 * rng.f(),
                };
                while i <= steps {
                    let choices = c.enabled();
                    if choices.is_empty() {
                        break;
                    }
                    let k = pick(&mut rng, &choices, &bias);
                    let ch = choices[k].clone();
                    taken.push(ch.clone());
                    if !step(&mut c, &ch, run, i, out).await {
                        stats.panicked = true;
                        break;
                    }
                    i += 1;
                }
            }
            Source::Guided { choices } => {
                for ch in choices {
                    let en = c.enabled();
                    let pick: Option<Choice> = if en.contains(ch) {
                        Some(ch.clone())
                    } else {
                        match ch {
                            Choice::Exit { t, ok, .. } => en
                                .iter()
                                .find(|e| matches!(e, Choice::Exit { t: t2, ok: ok2, .. } if t2 == t && ok2 == ok))
                                .cloned(),
                            Choice::Lose { reason, .. } => en
                                .iter()
                                .find(|e| matches!(e, Choice::Lose { reason: r2, .. } if r2 == reason))
                                .cloned(),
                            _ => None,
                        }
                    };
                    let Some(ch) = pick else { continue };
                    taken.push(ch.clone());
                    if !step(&mut c, &ch, run, i, out).await {
                        stats.panicked = true;
                        break;
                    }
                    i += 1;
                }
            }
            Source::Replay { choices } => {
                for ch in choices {
                    let en = c.enabled();
                    // Query is always possible
                    if !en.contains(ch) && !matches!(ch, Choice::Query { .. }) {
                        stats.diverged = true;
                        break;
                    }
                    taken.push(ch.clone());
                    if !step(&mut c, ch, run, i, out).await {
                        stats.panicked = true;
                        break;
                    }
                    i += 1;
                }
            }
        }
        // fault-free fair drain
        if profile.drain && !stats.panicked && !stats.diverged {
            let mut rr = 0usize;
            let mut n = 0;
            loop {
                let choices = c.drain_choices();
                if choices.is_empty() {
                    stats.quiescent = true;
                    break;
                }
                if n > 400 {
                    break;
                }
                let ch = choices[rr % choices.len()].clone();
                rr += 1;
                n += 1;
                taken.push(ch.clone());
                if !step(&mut c, &ch, run, i, out).await {
                    stats.panicked = true;
                    break;
                }
                i += 1;
            }
            if !stats.panicked {
                // query every job through the real RPC loop at rest
                let jobs: Vec<u32> = c.jobs.iter().copied().collect();
                for j in jobs {
                    let ch = Choice::Query { job: j };
                    taken.push(ch.clone());
                    if !step(&mut c, &ch, run, i, out).await {
                        stats.panicked = true;
                        break;
                    }
                    i += 1;
                }
                let st = c.snapshot();
                writeln!(
                    out,
                    "{}",
                    json!({"run": run, "i": i, "a": "Rest", "args": {"quiescent": stats.quiescent}, "resp": {}, "sent": [],
                           "ev": [], "live": [], "starts": [], "stops": [], "pan": 0, "panic": {"loc": "", "msg": ""}, "st": st})
                )
                .unwrap();
            }
        }
        stats.steps = i;
        if !stats.panicked {
            if let Some(p) = post.as_mut() {
                p(&c);
            }
        }
        c.shutdown();
        stats
    });
    drop(local);
    rt.shutdown_background();
    stats
}

fn arg<'a>(args: &'a [String], name: &str) -> Option<&'a str> {
    args.iter()
        .position(|a| a == name)
        .and_then(|i| args.get(i + 1))
        .map(|s| s.as_str())
}

fn load_profile(name: &str) -> Profile {
    if let Some(p) = profiles::get(name) {
        return p;
    }
    let data = std::fs::read_to_string(name).unwrap_or_else(|_| panic!("unknown profile {name}"));
    serde_json::from_str(&data).unwrap()
}

pub fn main(args: &[String]) -> i32 {
    panics::install();
    let mode = args.first().map(|s| s.as_str()).unwrap_or("walk");
    let out_path = arg(args, "--out").unwrap_or("/dev/stdout");
    let mut out = std::io::BufWriter::new(std::fs::File::create(out_path).unwrap());
    start_watchdog(out_path);
    match mode {
        "walk" => {
            let names: Vec<String> = arg(args, "--profile")
                .unwrap_or("happy")
                .split(',')
                .map(|s| s.to_string())
                .collect();
            let seed: u64 = arg(args, "--seed").unwrap_or("0").parse().unwrap();
            let runs: u64 = arg(args, "--runs").unwrap_or("10").parse().unwrap();
            let steps: usize = arg(args, "--steps").unwrap_or("60").parse().unwrap();
            let first_run: u64 = arg(args, "--first-run").unwrap_or("0").parse().unwrap();
            let choices_dir = arg(args, "--choices-dir");
            let mut total_steps = 0usize;
            let mut panics_n = 0usize;
            let mut quiescent = 0usize;
            for r in 0..runs {
                let run = first_run + r;
                let name = &names[(run as usize) % names.len()];
                let profile = load_profile(name);
                let mut taken = Vec::new();
                let s = run_one(
                    &profile,
                    run,
                    Source::Random {
                        seed: seed.wrapping_mul(1_000_003).wrapping_add(run),
                        steps,
                    },
                    &mut out,
                    &mut taken,
                );
                total_steps += s.steps;
                if s.panicked {
                    panics_n += 1;
                }
                if s.quiescent {
                    quiescent += 1;
                }
                if let Some(d) = choices_dir {
                    let f = format!("{d}/run{run}.json");
                    std::fs::write(
                        f,
                        serde_json::to_string(&json!({"profile": profile, "choices": taken})).unwrap(),
                    )
                    .unwrap();
                }
            }
            out.flush().unwrap();
            eprintln!(
                "{}",
                json!({"runs": runs, "steps": total_steps, "panics": panics_n, "quiescent": quiescent})
            );
            0
        }
        "replay" => {
            let file = arg(args, "--file").expect("--file");
            let v: Value = serde_json::from_str(&std::fs::read_to_string(file).unwrap()).unwrap();
            let profile: Profile = serde_json::from_value(v["profile"].clone()).unwrap();
            let choices: Vec<Choice> = serde_json::from_value(v["choices"].clone()).unwrap();
            let mut taken = Vec::new();
            let mut profile2 = profile.clone();
            if v.get("no_drain").and_then(|x| x.as_bool()).unwrap_or(false) {
                profile2.drain = false;
            }
            let s = run_one(
                &profile2,
                0,
                Source::Replay { choices: &choices },
                &mut out,
                &mut taken,
            );
            out.flush().unwrap();
            eprintln!(
                "{}",
                json!({"runs": 1, "steps": s.steps, "panics": if s.panicked {1} else {0}, "diverged": s.diverged})
            );
            0
        }
        "replaymany" => {
            // every *.json of a directory is replayed as one run (run id = position in sorted order)
            let dir = arg(args, "--dir").expect("--dir");
            let mut files: Vec<_> = std::fs::read_dir(dir)
                .unwrap()
                .filter_map(|e| e.ok())
                .map(|e| e.path())
                .filter(|p| p.extension().map(|x| x == "json").unwrap_or(false))
                .collect();
            files.sort();
            let mut n = 0;
            let mut steps = 0;
            let mut pan = 0;
            for (run, f) in files.iter().enumerate() {
                let v: Value = match serde_json::from_str(&std::fs::read_to_string(f).unwrap()) {
                    Ok(v) => v,
                    Err(_) => continue,
                };
                if v.get("engine").and_then(|e| e.as_str()).unwrap_or("cluster") != "cluster" {
                    continue;
                }
                let profile: Profile = match serde_json::from_value(v["profile"].clone()) {
                    Ok(p) => p,
                    Err(_) => continue,
                };
                let choices: Vec<Choice> = match serde_json::from_value(v["choices"].clone()) {
                    Ok(c) => c,
                    Err(_) => continue,
                };
                let mut profile = profile;
                profile.drain = true;
                let mut taken = Vec::new();
                let s = run_one(&profile, run as u64, Source::Replay { choices: &choices }, &mut out, &mut taken);
                n += 1;
                steps += s.steps;
                if s.panicked {
                    pan += 1;
                }
                if let Some(d) = arg(args, "--choices-dir") {
                    std::fs::write(
                        format!("{d}/run{run}.json"),
                        serde_json::to_string(&json!({"profile": profile, "choices": taken, "from": f.file_name().unwrap().to_string_lossy()})).unwrap(),
                    )
                    .unwrap();
                }
            }
            out.flush().unwrap();
            eprintln!("{}", json!({"runs": n, "steps": steps, "panics": pan, "quiescent": 0}));
            0
        }
        "guided" => {
            // --profile-file <json>  --file <ndjson: one JSON array of choices per line>  [--choices-dir d]
            let profile: Profile = serde_json::from_str(&std::fs::read_to_string(arg(args, "--profile-file").expect("--profile-file")).unwrap()).unwrap();
            let text = std::fs::read_to_string(arg(args, "--file").expect("--file")).unwrap();
            let first: u64 = arg(args, "--first-run").unwrap_or("0").parse().unwrap();
            let (mut n, mut steps, mut pan, mut qui) = (0u64, 0usize, 0, 0);
            for (k, line) in text.lines().enumerate() {
                if line.trim().is_empty() {
                    continue;
                }
                let choices: Vec<Choice> = match serde_json::from_str(line) {
                    Ok(c) => c,
                    Err(e) => {
                        eprintln!("bad behaviour line {k}: {e}");
                        continue;
                    }
                };
                let run = first + k as u64;
                let mut taken = Vec::new();
                let s = run_one(&profile, run, Source::Guided { choices: &choices }, &mut out, &mut taken);
                n += 1;
                steps += s.steps;
                if s.panicked {
                    pan += 1;
                }
                if s.quiescent {
                    qui += 1;
                }
                if let Some(d) = arg(args, "--choices-dir") {
                    std::fs::write(
                        format!("{d}/run{run}.json"),
                        serde_json::to_string(&json!({"profile": profile, "choices": taken})).unwrap(),
                    )
                    .unwrap();
                }
            }
            out.flush().unwrap();
            eprintln!("{}", json!({"runs": n, "steps": steps, "panics": pan, "quiescent": qui}));
            0
        }
        "profiles" => {
            for n in profiles::ALL {
                println!("{}", serde_json::to_string(&profiles::get(n).unwrap()).unwrap());
            }
            0
        }
        _ => 2,
    }
}
