//! Panic capture: a panic in code under test is data, not a crash of the harness.
use std::cell::RefCell;

thread_local! {
    static LAST: RefCell<Option<(String, String)>> = const { RefCell::new(None) };
}

pub fn install() {
    std::panic::set_hook(Box::new(|info| {
        let loc = info
            .location()
            .map(|l| format!("{}:{}", l.file(), l.line()))
            .unwrap_or_else(|| "?".to_string());
        let msg = if let Some(s) = info.payload().downcast_ref::<&str>() {
            s.to_string()
        } else if let Some(s) = info.payload().downcast_ref::<String>() {
            s.clone()
        } else {
            "?".to_string()
        };
        LAST.with(|l| {
            let mut l = l.borrow_mut();
            if l.is_none() {
                *l = Some((loc, msg));
            }
        });
    }));
}

pub fn take() -> Option<(String, String)> {
    LAST.with(|l| l.borrow_mut().take())
}
