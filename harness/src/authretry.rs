//! C20 through the worker's REAL connection path (`tako::worker::run_worker` -> connect_and_register_with_retry ->
//! connect_to_server_and_authenticate -> do_authentication): the first connection attempt is cut by the network (or an
//! adversary), the retry meets a peer that does or does not hold the key.  Logged: whether the peer got through the
//! handshake and received the worker's registration.

use std::io::Write;
use std::sync::Arc;
use std::time::Duration;

use futures::StreamExt;
use orion::kdf::SecretKey;
use serde_json::{Value, json};
use tako::verif::auth as hook;
use tokio::net::TcpListener;

fn config() -> tako::worker::WorkerConfiguration {
    tako::worker::WorkerConfiguration {
        resources: tako::resources::ResourceDescriptor::simple_cpus(1),
        listen_address: "localhost:1".into(),
        hostname: "localhost".into(),
        group: "default".into(),
        work_dir: std::path::PathBuf::from("/nonexistent-hqv"),
        heartbeat_interval: Duration::from_secs(8),
        overview_configuration: tako::internal::worker::configuration::OverviewConfiguration::disabled(),
        idle_timeout: None,
        time_limit: None,
        retract_check_interval: Duration::from_secs(3600),
        on_server_lost: tako::worker::ServerLostPolicy::Stop,
        min_utilization: 0.0,
        extra: Default::default(),
    }
}

struct NoLauncher;
impl tako::launcher::TaskLauncher for NoLauncher {
    fn build_task(
        &self,
        _ctx: tako::launcher::TaskBuildContext,
        _stop: tokio::sync::oneshot::Receiver<tako::launcher::StopReason>,
    ) -> tako::Result<tako::launcher::TaskLaunchData> {
        Err(tako::Error::GenericError("no tasks here".into()))
    }
}

/// `drops`: how many connections the peer cuts before it talks; `peer_key`: the key the peer uses when it talks
async fn one_case(worker_key: Option<Arc<SecretKey>>, peer_key: Option<Arc<SecretKey>>, drops: usize, names: (&str, &str)) -> Value {
    let listener = TcpListener::bind("127.0.0.1:0").await.unwrap();
    let addr = listener.local_addr().unwrap();
    let peer = tokio::task::spawn_local(async move {
        for _ in 0..drops {
            if let Ok((s, _)) = listener.accept().await {
                drop(s);
            }
        }
        let Ok((s, _)) = listener.accept().await else { return (false, false) };
        let (mut w, mut r) = hook::protocol_builder().new_framed(s).split();
        // the peer plays the server side of the real handshake with the key it has (or none)
        let hs = tako::comm::do_authentication(0, "server", "worker", peer_key, &mut w, &mut r).await;
        if hs.is_err() {
            return (false, false);
        }
        // did the worker go on and hand over its registration ?
        let got = tokio::time::timeout(Duration::from_secs(5), r.next()).await;
        (true, matches!(got, Ok(Some(Ok(_)))))
    });
    let stop = Arc::new(tokio::sync::Notify::new());
    let mut worker = tokio::task::spawn_local(async move {
        match tako::worker::run_worker(vec![addr], config(), worker_key, |_, _| Box::new(NoLauncher) as Box<dyn tako::launcher::TaskLauncher>, stop).await {
            Ok(_) => "connected".to_string(),
            Err(tako::Error::AuthenticationRejected(_)) => "rejected".to_string(),
            Err(e) => format!("error: {e}"),
        }
    });
    // the peer's side of the story ends the case; the worker gets a moment to report, then it is stopped
    let (handshake_ok, registration_received) = tokio::time::timeout(Duration::from_secs(30), peer).await.ok().and_then(|r| r.ok()).unwrap_or((false, false));
    let wres = match tokio::time::timeout(Duration::from_secs(2), &mut worker).await {
        Ok(Ok(r)) => r,
        _ => {
            worker.abort();
            "still trying".to_string()
        }
    };
    json!({"worker_key": names.0, "peer_key": names.1, "dropped_first": drops, "peer_handshake_ok": handshake_ok,
           "registration_received": registration_received, "worker": wres})
}

pub fn main(args: &[String]) -> i32 {
    let arg = |name: &str| -> Option<&str> {
        args.iter().position(|a| a == name).and_then(|i| args.get(i + 1)).map(|s| s.as_str())
    };
    let out_path = arg("--out").unwrap_or("/dev/stdout");
    let mut out = std::io::BufWriter::new(std::fs::File::create(out_path).unwrap());
    let k1 = Arc::new(SecretKey::from_slice(&[7u8; 32]).unwrap());
    let k2 = Arc::new(SecretKey::from_slice(&[9u8; 32]).unwrap());
    let rt = tokio::runtime::Builder::new_current_thread().enable_all().build().unwrap();
    let local = tokio::task::LocalSet::new();
    let results: Vec<Value> = local.block_on(&rt, async {
        let key = |n: &str| -> Option<Arc<SecretKey>> {
            match n {
                "k1" => Some(k1.clone()),
                "k2" => Some(k2.clone()),
                _ => None,
            }
        };
        let mut handles = Vec::new();
        // (worker key, peer key, connections cut first); the retry delay of the worker is real time (10 s), so all cases run at once
        for (wk, pk, drops) in [("k1", "none", 0usize), ("k1", "none", 1), ("k1", "k2", 1), ("k1", "k1", 1), ("k1", "k1", 0), ("none", "none", 1)] {
            let (a, b) = (key(wk), key(pk));
            handles.push(tokio::task::spawn_local(async move { one_case(a, b, drops, (wk, pk)).await }));
        }
        let mut v = Vec::new();
        for h in handles {
            v.push(h.await.unwrap());
        }
        v
    });
    for r in results {
        writeln!(out, "{}", r).unwrap();
    }
    out.flush().unwrap();
    0
}
