//! Deterministic in-process simulation of an HQ cluster built from the real objects:
//! real tako `Core` + reactor + scheduler (`SimServer`), real worker state machines (`SimWorker`),
//! the real HQ job layer (`State`, `UpstreamEventProcessor`, `client_rpc_loop`, `EventStreamer`).
//! Sockets are replaced by harness-owned FIFO queues; every environment choice is one step and
//! produces one ndjson trace line with the projection of the real state.

use std::cell::RefCell;
use std::collections::{BTreeMap, BTreeSet, VecDeque};
use std::path::PathBuf;
use std::rc::Rc;
use std::sync::Arc;
use std::time::{Duration, Instant};

use futures::SinkExt;
use futures::channel::mpsc as fmpsc;
use serde::{Deserialize, Serialize};
use serde_json::{Value, json};
use tokio::sync::{Notify, mpsc, oneshot};

use hyperqueue::common::arraydef::IntArray;
use hyperqueue::common::serverdir::ServerDir;
use hyperqueue::server::Senders;
use hyperqueue::server::event::Event;
use hyperqueue::server::event::journal::EventStreamMessage;
use hyperqueue::server::event::payload::EventPayload;
use hyperqueue::server::event::streamer::{EventFilter, EventFilterFlags, EventStreamer};
use hyperqueue::server::job::JobTaskState;
use hyperqueue::server::state::StateRef;
use hyperqueue::transfer::messages::{
    CancelJobResponse, CancelRequest, CloseJobRequest, CloseJobResponse, ForgetJobRequest,
    FromClientMessage, IdSelector, JobDescription, JobDetailRequest, JobInfoRequest,
    JobSubmitDescription, JobTaskDescription, LocalResourceRqId, PinMode, ServerInfo,
    StopWorkerMessage, StreamEvents, StreamEventsMode, SubmitRequest, SubmitResponse,
    TaskDescription, TaskIdSelector, TaskKind, TaskKindProgram, TaskSelector, TaskStatusSelector,
    TaskWithDependencies, ToClientMessage,
};
use hyperqueue::worker::start::RunningTaskContext;
use tako::gateway::{
    CrashLimit, LostWorkerReason, ResourceRequest, ResourceRequestEntry, ResourceRequestVariants,
};
use tako::internal::messages::worker::{
    FromWorkerMessage, ToWorkerMessage, WorkerTaskUpdate,
};
use tako::internal::worker::configuration::OverviewConfiguration;
use tako::launcher::{StopReason, TaskBuildContext, TaskLaunchData, TaskLauncher, TaskResult};
use tako::program::ProgramDefinition;
use tako::resources::{
    AllocationRequest, ResourceAmount, ResourceDescriptor, ResourceDescriptorItem,
};
use tako::server::SchedulerConfig;
use tako::verif::{SimServer, SimWorker, task_id_num};
use tako::worker::{ServerLostPolicy, WorkerConfiguration};
use tako::{JobId, JobTaskId, Set, WorkerId};

use crate::panics;

// ------------------------------------------------------------------------------------------
// Profiles
// ------------------------------------------------------------------------------------------

#[derive(Clone, Debug, Serialize, Deserialize)]
pub struct WorkerKind {
    pub cpus: u32,
    #[serde(default)]
    pub gpus: u32,
    #[serde(default)]
    pub group: String,
    /// life time in virtual hours (0 = unlimited)
    #[serde(default)]
    pub time_limit: u32,
}

#[derive(Clone, Debug, Serialize, Deserialize)]
pub struct VariantSpec {
    /// cpus in 1/10000 units; -1 = all
    pub cpus: i64,
    #[serde(default)]
    pub gpus: i64,
    /// min_time in virtual hours
    #[serde(default)]
    pub min_time: u32,
}

#[derive(Clone, Debug, Serialize, Deserialize)]
pub struct ClassSpec {
    pub variants: Vec<VariantSpec>,
    #[serde(default)]
    pub n_nodes: u32,
}

#[derive(Clone, Debug, Serialize, Deserialize)]
pub struct GraphTask {
    pub id: u32,
    #[serde(default)]
    pub deps: Vec<u32>,
    #[serde(default)]
    pub class: usize,
    #[serde(default)]
    pub prio: i32,
    /// own time limit in virtual hours (0 = the submit's)
    #[serde(default)]
    pub tl: u32,
    /// padding of the task body in MiB with filler byte `pad_fill` (large bodies make the server split its messages)
    #[serde(default)]
    pub pad_mb: u32,
    #[serde(default)]
    pub pad_fill: u8,
}

#[derive(Clone, Debug, Serialize, Deserialize)]
pub struct SubmitSpec {
    /// "new" = closed job; "open" = into the newest open job
    #[serde(default)]
    pub into_open: bool,
    /// explicit ids of an array (empty = server assigns)
    #[serde(default)]
    pub ids: Vec<u32>,
    /// number of entries (0 = no entries)
    #[serde(default)]
    pub entries: u32,
    /// graph (if non-empty, ids/entries are ignored)
    #[serde(default)]
    pub graph: Vec<GraphTask>,
    #[serde(default)]
    pub class: usize,
    #[serde(default)]
    pub prio: i32,
    /// -1 never restart, 0 unlimited, n = max crashes
    #[serde(default = "default_crash")]
    pub crash_limit: i32,
    /// task time limit in virtual hours (0 = none)
    #[serde(default)]
    pub time_limit: u32,
    /// max fails for a new job (-1 = none)
    #[serde(default = "minus_one")]
    pub max_fails: i32,
    /// submit with event streaming (wait/progress)
    #[serde(default)]
    pub stream: bool,
}

fn default_crash() -> i32 {
    5
}
fn minus_one() -> i32 {
    -1
}

#[derive(Clone, Debug, Serialize, Deserialize)]
pub struct Profile {
    pub name: String,
    #[serde(default = "yes")]
    pub journal: bool,
    #[serde(default)]
    pub manual_flush: bool,
    #[serde(default)]
    pub reserve: u32,
    #[serde(default = "one")]
    pub pf_max: u32,
    pub worker_kinds: Vec<WorkerKind>,
    pub initial_workers: Vec<usize>,
    #[serde(default)]
    pub max_connects: u32,
    pub classes: Vec<ClassSpec>,
    pub submits: Vec<SubmitSpec>,
    #[serde(default = "one")]
    pub max_submits: u32,
    #[serde(default)]
    pub opens: u32,
    #[serde(default)]
    pub losses: u32,
    #[serde(default)]
    pub cancels: u32,
    #[serde(default)]
    pub fails: u32,
    #[serde(default)]
    pub launch_fails: u32,
    #[serde(default)]
    pub stops: u32,
    #[serde(default)]
    pub ticks: u32,
    #[serde(default)]
    pub forgets: u32,
    #[serde(default = "yes")]
    pub drain: bool,
    #[serde(default)]
    pub prunes: u32,
    #[serde(default)]
    pub queue_events: u32,
    /// an execution that is told to stop (cancel / time limit) does not end at once: its process dies at a later step `Die`,
    /// until then the worker keeps its resources
    #[serde(default)]
    pub slow_stop: bool,
    /// workers run with `--on-server-lost finish-running`: a worker whose connection is lost goes on until its running
    /// tasks have ended (the REAL finish_tasks_on_server_lost), while the server has already given its tasks to others
    #[serde(default)]
    pub finish_running: bool,
}

fn yes() -> bool {
    true
}
fn one() -> u32 {
    1
}

// ------------------------------------------------------------------------------------------
// Choices (environment steps)
// ------------------------------------------------------------------------------------------

#[derive(Clone, Debug, Serialize, Deserialize, PartialEq)]
#[serde(tag = "c")]
pub enum Choice {
    Submit { spec: usize },
    Open,
    Close { job: u32 },
    Cancel { job: u32 },
    Forget { job: u32 },
    Schedule,
    S2W { w: u32 },
    W2S { w: u32 },
    Exit { w: u32, t: u64, ok: bool },
    /// the process of an execution that was told to stop is gone
    Die { w: u32, t: u64 },
    Lose { w: u32, reason: String },
    Connect { kind: usize },
    Stop { w: u32 },
    Tick,
    FlushAck,
    FailLaunch { t: u64 },
    Query { job: u32 },
    Prune,
    QueueEvent { kind: u32 },
}

// ------------------------------------------------------------------------------------------
// Fake task launcher
// ------------------------------------------------------------------------------------------

pub struct TaskHandle {
    pub inst: u32,
    pub tx: oneshot::Sender<Result<TaskResult, String>>,
}

#[derive(Default)]
pub struct Shared {
    pub handles: BTreeMap<(u32, u64), TaskHandle>,
    /// executions that observed their stop signal and have not ended yet (profiles with `slow_stop`)
    pub dying: BTreeMap<(u32, u64), (u32, oneshot::Sender<()>)>,
    pub slow_stop: bool,
    pub starts: Vec<Value>,
    pub stops: Vec<Value>,
    pub fail_launch: BTreeSet<u64>,
    pub vnow: u32,
}

struct SimLauncher {
    worker: Rc<std::cell::Cell<u32>>,
    shared: Rc<RefCell<Shared>>,
}

fn alloc_json(a: &tako::resources::Allocation) -> Value {
    let rs: Vec<Value> = a
        .resources
        .iter()
        .map(|ra| {
            let idx: Vec<Value> = ra
                .indices
                .iter()
                .map(|i| json!({"i": i.index.as_num(), "g": i.group_idx, "f": i.fractions}))
                .collect();
            let (u, f) = ra.amount.split();
            json!({"r": ra.resource_id.as_num(), "amount": u as u64 * 10_000 + f as u64, "idx": idx})
        })
        .collect();
    json!(rs)
}

impl TaskLauncher for SimLauncher {
    fn build_task(
        &self,
        ctx: TaskBuildContext,
        stop_receiver: oneshot::Receiver<StopReason>,
    ) -> tako::Result<TaskLaunchData> {
        let w = self.worker.get();
        let tid = task_id_num(ctx.task_id());
        let inst = ctx.instance_id().as_num();
        let v = ctx.resource_variant().as_num();
        let fail = self.shared.borrow_mut().fail_launch.remove(&tid);
        let vnow = self.shared.borrow().vnow;
        self.shared.borrow_mut().starts.push(json!({
            "w": w, "t": tid, "inst": inst, "v": v, "ok": !fail, "now": vnow,
            "alloc": alloc_json(ctx.allocation()),
            "nodes": ctx.node_list().iter().map(|x| x.as_num()).collect::<Vec<_>>(),
        }));
        if fail {
            return Err(tako::Error::GenericError("simulated launch failure".to_string()));
        }
        let (tx, rx) = oneshot::channel::<Result<TaskResult, String>>();
        self.shared
            .borrow_mut()
            .handles
            .insert((w, tid), TaskHandle { inst, tx });
        let shared = self.shared.clone();
        let fut = async move {
            tokio::select! {
                biased;
                r = stop_receiver => {
                    match r {
                        Ok(reason) => {
                            let name = match reason { StopReason::Cancel => "cancel", StopReason::Timeout => "timeout" };
                            let wait = {
                                let mut s = shared.borrow_mut();
                                s.stops.push(json!({"w": w, "t": tid, "inst": inst, "reason": name}));
                                s.handles.remove(&(w, tid));
                                if s.slow_stop {
                                    let (dtx, drx) = oneshot::channel::<()>();
                                    s.dying.insert((w, tid), (inst, dtx));
                                    Some(drx)
                                } else {
                                    None
                                }
                            };
                            if let Some(drx) = wait {
                                if drx.await.is_err() {
                                    return futures::future::pending().await;
                                }
                            }
                            Ok(TaskResult::from(reason))
                        }
                        Err(_) => futures::future::pending().await,
                    }
                }
                r = rx => {
                    match r {
                        Ok(Ok(tr)) => Ok(tr),
                        Ok(Err(msg)) => Err(tako::Error::GenericError(msg)),
                        Err(_) => futures::future::pending().await,
                    }
                }
            }
        };
        let context = tako::comm::serialize(&RunningTaskContext {
            instance_id: ctx.instance_id(),
        })
        .unwrap();
        Ok(TaskLaunchData::new(Box::pin(fut), context))
    }
}

// ------------------------------------------------------------------------------------------
// Cluster
// ------------------------------------------------------------------------------------------

struct SimW {
    worker: SimWorker,
    s2w: VecDeque<ToWorkerMessage>,
    w2s: VecDeque<FromWorkerMessage>,
    stopped: bool,
    connected_at: u32,
    time_limit: u32,
    kind: usize,
    retract: tokio::task::JoinHandle<()>,
}

/// a worker that lost its server and finishes its running tasks (policy finish-running)
struct Orphan {
    sw: SimW,
    done: Rc<std::cell::Cell<bool>>,
}

struct ClientConn {
    tx: fmpsc::UnboundedSender<tako::Result<FromClientMessage>>,
    rx: fmpsc::UnboundedReceiver<ToClientMessage>,
    task: tokio::task::JoinHandle<()>,
}

struct StreamClient {
    job: u32,
    conn: ClientConn,
    got_response: bool,
    got_completed: bool,
    /// the client went away (as `hq submit --wait` does once its job is reported complete)
    left: bool,
}

pub struct Cluster {
    pub profile: Profile,
    server: SimServer,
    state_ref: StateRef,
    senders: Senders,
    journal_rx: Option<mpsc::UnboundedReceiver<EventStreamMessage>>,
    live_rx: mpsc::UnboundedReceiver<Event>,
    pub journal: Vec<Event>,
    pub flushed: usize,
    pending_flush: Vec<oneshot::Sender<()>>,
    workers: BTreeMap<u32, SimW>,
    shared: Rc<RefCell<Shared>>,
    client: ClientConn,
    streams: Vec<StreamClient>,
    orphans: BTreeMap<u32, Orphan>,
    server_dir: ServerDir,
    _tmp: tempfile::TempDir,
    base: Instant,
    pub vnow: u32,
    // budgets
    pub n_submits: u32,
    pub n_opens: u32,
    pub n_losses: u32,
    pub n_cancels: u32,
    pub n_fails: u32,
    pub n_launch_fails: u32,
    pub n_stops: u32,
    pub n_ticks: u32,
    pub n_connects: u32,
    pub n_forgets: u32,
    // step-local logs
    ev: Vec<Value>,
    live_ev: Vec<Value>,
    sent: Vec<Value>,
    // known jobs (ids) as seen in client replies
    pub jobs: BTreeSet<u32>,
    pub open_jobs: BTreeSet<u32>,
    pub dead: bool,
    pub prunes: Vec<PruneLog>,
    pub n_prunes: u32,
    pub n_queue_events: u32,
    queues_live: BTreeSet<u32>,
    next_queue: u32,
    next_alloc: u32,
}

pub struct PruneLog {
    pub before: Vec<Event>,
    pub after: Vec<Event>,
    pub live_jobs: Vec<u32>,
    pub live_workers: Vec<u32>,
}

const HOUR: Duration = Duration::from_secs(3600);

fn amount_from(x: i64) -> ResourceAmount {
    ResourceAmount::new((x / 10_000) as u32, (x % 10_000) as u32)
}

fn make_rqv(class: &ClassSpec) -> ResourceRequestVariants {
    let variants = class
        .variants
        .iter()
        .map(|v| {
            let mut resources = smallvec::SmallVec::new();
            if class.n_nodes == 0 {
                resources.push(ResourceRequestEntry {
                    resource: "cpus".to_string(),
                    policy: if v.cpus < 0 {
                        AllocationRequest::All
                    } else {
                        AllocationRequest::Compact(amount_from(v.cpus))
                    },
                });
                if v.gpus != 0 {
                    resources.push(ResourceRequestEntry {
                        resource: "gpus".to_string(),
                        policy: if v.gpus < 0 {
                            AllocationRequest::All
                        } else {
                            AllocationRequest::Compact(amount_from(v.gpus))
                        },
                    });
                }
            }
            ResourceRequest {
                n_nodes: class.n_nodes,
                resources,
                min_time: HOUR * v.min_time,
                weight: Default::default(),
            }
        })
        .collect();
    ResourceRequestVariants::new(variants)
}

fn program() -> ProgramDefinition {
    ProgramDefinition {
        args: vec!["true".into()],
        env: Default::default(),
        stdout: Default::default(),
        stderr: Default::default(),
        stdin: Vec::new(),
        cwd: PathBuf::from("/nonexistent-hqv"),
    }
}

fn task_desc(prio: i32, crash_limit: i32, time_limit: u32) -> TaskDescription {
    task_desc_padded(prio, crash_limit, time_limit, 0, 0)
}

fn task_desc_padded(prio: i32, crash_limit: i32, time_limit: u32, pad_mb: u32, fill: u8) -> TaskDescription {
    let mut program = program();
    if pad_mb > 0 {
        let pad = vec![b'a' + (fill % 26); pad_mb as usize * 1024 * 1024];
        program.args.push(pad.into());
    }
    TaskDescription {
        kind: TaskKind::ExternalProgram(TaskKindProgram {
            program,
            pin_mode: PinMode::None,
            task_dir: false,
        }),
        time_limit: if time_limit == 0 {
            None
        } else {
            Some(HOUR * time_limit)
        },
        priority: prio.into(),
        crash_limit: match crash_limit {
            -1 => CrashLimit::NeverRestart,
            0 => CrashLimit::Unlimited,
            n => CrashLimit::MaxCrashes(n as u16),
        },
    }
}

fn reason_from(s: &str) -> LostWorkerReason {
    match s {
        "stopped" => LostWorkerReason::Stopped,
        "heartbeat" => LostWorkerReason::HeartbeatLost,
        "idle" => LostWorkerReason::IdleTimeout,
        "timelimit" => LostWorkerReason::TimeLimitReached,
        _ => LostWorkerReason::ConnectionLost,
    }
}

/// The oracle's own reading of the statement of C07: a loss counts as a crash of the tasks running on the worker iff the
/// worker was lost due to a failure - "not a stop, idle timeout or time limit". (Deliberately NOT `LostWorkerReason::is_failure`,
/// which is code under test.)
pub fn loss_is_failure(r: LostWorkerReason) -> bool {
    matches!(r, LostWorkerReason::ConnectionLost | LostWorkerReason::HeartbeatLost)
}

pub fn reason_name(r: LostWorkerReason) -> &'static str {
    match r {
        LostWorkerReason::Stopped => "stopped",
        LostWorkerReason::ConnectionLost => "connection",
        LostWorkerReason::HeartbeatLost => "heartbeat",
        LostWorkerReason::IdleTimeout => "idle",
        LostWorkerReason::TimeLimitReached => "timelimit",
    }
}

fn tid_of(t: tako::TaskId) -> u64 {
    task_id_num(t)
}

pub fn event_json(p: &EventPayload) -> Value {
    match p {
        EventPayload::WorkerConnected(w, _) => json!({"k": "WorkerConnected", "w": w.as_num()}),
        EventPayload::WorkerLost(w, r) => {
            json!({"k": "WorkerLost", "w": w.as_num(), "reason": reason_name(*r), "fail": loss_is_failure(*r)})
        }
        EventPayload::WorkerOverviewReceived(_) => json!({"k": "Overview"}),
        EventPayload::Submit {
            job_id,
            closed_job,
            serialized_desc,
        } => {
            let mut tasks: Vec<Value> = Vec::new();
            let mut max_fails: i64 = -1;
            if let Ok(req) = serialized_desc.deserialize() {
                let req: SubmitRequest = req;
                max_fails = req.job_desc.max_fails.map(|x| x as i64).unwrap_or(-1);
                match &req.submit_desc.task_desc {
                    JobTaskDescription::Array { ids, .. } => {
                        for id in ids.iter() {
                            tasks.push(json!({"id": id, "deps": []}));
                        }
                    }
                    JobTaskDescription::Graph { tasks: ts, .. } => {
                        for t in ts {
                            let mut deps: Vec<u32> = t.task_deps.iter().map(|d| d.as_num()).collect();
                            deps.sort_unstable();
                            deps.dedup();
                            tasks.push(json!({"id": t.id.as_num(), "deps": deps}));
                        }
                    }
                }
            }
            json!({"k": "Submit", "j": job_id.as_num(), "closed": closed_job, "tasks": tasks, "max_fails": max_fails})
        }
        EventPayload::JobCompleted(j) => json!({"k": "JobCompleted", "j": j.as_num()}),
        EventPayload::JobOpen(j, _) => json!({"k": "JobOpen", "j": j.as_num()}),
        EventPayload::JobClose(j) => json!({"k": "JobClose", "j": j.as_num()}),
        EventPayload::JobIdle(j) => json!({"k": "JobIdle", "j": j.as_num()}),
        EventPayload::JobCancel { job_id, .. } => json!({"k": "JobCancel", "j": job_id.as_num()}),
        EventPayload::TaskStarted {
            task_id,
            instance_id,
            worker_ids,
            rv_id,
        } => json!({"k": "TaskStarted", "t": tid_of(*task_id), "inst": instance_id.as_num(),
                    "ws": worker_ids.iter().map(|w| w.as_num()).collect::<Vec<_>>(), "v": rv_id.as_num()}),
        EventPayload::TaskFinished { task_id } => json!({"k": "TaskFinished", "t": tid_of(*task_id)}),
        EventPayload::TaskFailed { task_id, error } => {
            let cls = if error.contains("Time limit") {
                "timelimit"
            } else if error.contains("never restart") {
                "never_restart"
            } else if error.contains("limit was reached") {
                "crash_limit"
            } else if error.contains("simulated launch failure") {
                "launch"
            } else {
                "task"
            };
            json!({"k": "TaskFailed", "t": tid_of(*task_id), "cls": cls})
        }
        EventPayload::TasksCanceled { task_ids } => {
            json!({"k": "TasksCanceled", "ts": task_ids.iter().map(|t| tid_of(*t)).collect::<Vec<_>>()})
        }
        EventPayload::TasksAborted { task_ids } => {
            json!({"k": "TasksAborted", "ts": task_ids.iter().map(|t| tid_of(*t)).collect::<Vec<_>>()})
        }
        EventPayload::AllocationQueueCreated(q, _) => json!({"k": "QueueCreated", "q": q}),
        EventPayload::AllocationQueueRemoved(q) => json!({"k": "QueueRemoved", "q": q}),
        EventPayload::AllocationQueued {
            queue_id,
            allocation_id,
            worker_count,
        } => json!({"k": "AllocationQueued", "q": queue_id, "a": allocation_id, "n": worker_count}),
        EventPayload::AllocationStarted(q, a) => json!({"k": "AllocationStarted", "q": q, "a": a}),
        EventPayload::AllocationFinished(q, a) => json!({"k": "AllocationFinished", "q": q, "a": a}),
        EventPayload::ServerStart { server_uid } => json!({"k": "ServerStart", "uid": server_uid}),
        EventPayload::ServerStop => json!({"k": "ServerStop"}),
        EventPayload::TaskNotify(_) => json!({"k": "TaskNotify"}),
    }
}

fn to_worker_json(m: &ToWorkerMessage) -> Option<Value> {
    match m {
        ToWorkerMessage::ComputeTasks(msg) => {
            let tasks: Vec<Value> = msg
                .tasks
                .iter()
                .map(|t| {
                    json!({"t": tid_of(t.id), "inst": t.instance_id.as_num(),
                           "v": t.resource_rq_variant.map(|v| v.as_num() as i64).unwrap_or(-1),
                           "rq": t.resource_rq_id.as_num(),
                           "nodes": t.node_list.iter().map(|w| w.as_num()).collect::<Vec<_>>()})
                })
                .collect();
            Some(json!({"k": "Compute", "tasks": tasks}))
        }
        ToWorkerMessage::RetractTasks(m) => {
            Some(json!({"k": "Retract", "ids": m.ids.iter().map(|t| tid_of(*t)).collect::<Vec<_>>()}))
        }
        ToWorkerMessage::CancelTasks(m) => {
            Some(json!({"k": "Cancel", "ids": m.ids.iter().map(|t| tid_of(*t)).collect::<Vec<_>>()}))
        }
        ToWorkerMessage::Stop => Some(json!({"k": "Stop"})),
        _ => None,
    }
}

fn is_infra(m: &ToWorkerMessage) -> bool {
    to_worker_json(m).is_none()
}

fn from_worker_json(m: &FromWorkerMessage) -> Value {
    match m {
        FromWorkerMessage::TaskUpdate(ups) => {
            let us: Vec<Value> = ups
                .iter()
                .map(|u| match u {
                    WorkerTaskUpdate::Finished { task_id } => json!({"k": "Finished", "t": tid_of(*task_id)}),
                    WorkerTaskUpdate::Failed { task_id, .. } => json!({"k": "Failed", "t": tid_of(*task_id)}),
                    WorkerTaskUpdate::Running(m) => {
                        json!({"k": "Running", "t": tid_of(m.task_id), "v": m.rv_id.as_num()})
                    }
                    WorkerTaskUpdate::RunningPrefilled(m) => {
                        json!({"k": "RunningPrefilled", "t": tid_of(m.task_id), "v": m.rv_id.as_num()})
                    }
                    WorkerTaskUpdate::RejectRequest { task_id, rv_id } => {
                        json!({"k": "Reject", "t": tid_of(*task_id), "v": rv_id.map(|v| v.as_num() as i64).unwrap_or(-1)})
                    }
                    WorkerTaskUpdate::EnableRequest {
                        resource_rq_id,
                        rv_id,
                    } => json!({"k": "Enable", "rq": resource_rq_id.as_num(), "v": rv_id.as_num()}),
                })
                .collect();
            json!({"k": "Update", "ups": us})
        }
        FromWorkerMessage::RetractResponse(m) => {
            json!({"k": "RetractResponse", "ids": m.retracted.iter().map(|t| tid_of(*t)).collect::<Vec<_>>()})
        }
        FromWorkerMessage::Overview(_) => json!({"k": "Overview"}),
        FromWorkerMessage::Heartbeat => json!({"k": "Heartbeat"}),
        FromWorkerMessage::Stop(_) => json!({"k": "WStop"}),
        FromWorkerMessage::Notify(_) => json!({"k": "Notify"}),
    }
}

async fn pump() {
    for _ in 0..40 {
        tokio::task::yield_now().await;
    }
}

fn new_client(
    state_ref: &StateRef,
    senders: &Senders,
    server_dir: &ServerDir,
) -> ClientConn {
    let (req_tx, req_rx) = fmpsc::unbounded::<tako::Result<FromClientMessage>>();
    let (resp_tx, resp_rx) = fmpsc::unbounded::<ToClientMessage>();
    let sink = resp_tx.sink_map_err(|e| tako::Error::GenericError(e.to_string()));
    let st = state_ref.clone();
    let s = senders.clone();
    let dir = server_dir.clone();
    let task = tokio::task::spawn_local(async move {
        let end_flag = Arc::new(Notify::new());
        hyperqueue::server::client::client_rpc_loop(sink, req_rx, dir, st, &s, end_flag).await;
    });
    ClientConn {
        tx: req_tx,
        rx: resp_rx,
        task,
    }
}

impl Cluster {
    pub async fn new(profile: Profile) -> Self {
        let tmp = tempfile::TempDir::with_prefix("hqv").unwrap();
        let server_dir = ServerDir::open(tmp.path()).unwrap();
        let uid = "hqvuid".to_string();
        let (events, journal_rx) = if profile.journal {
            let (tx, rx) = mpsc::unbounded_channel::<EventStreamMessage>();
            (EventStreamer::new(Some(tx)), Some(rx))
        } else {
            (EventStreamer::new(None), None)
        };
        let server = SimServer::new(
            uid.clone(),
            WorkerId::new(0),
            SchedulerConfig {
                proactive_filling_reserve: profile.reserve,
                proactive_filling_max: profile.pf_max,
                mip_time_limit: Duration::from_secs(20),
            },
        );
        let state_ref = StateRef::new(ServerInfo {
            server_uid: uid.clone(),
            client_host: "h".into(),
            worker_host: "h".into(),
            client_port: 0,
            worker_port: 0,
            version: "v".into(),
            pid: 0,
            start_date: chrono::Utc::now(),
            journal_path: None,
        });
        let senders = hyperqueue::server::verif::make_senders(server.server_ref(), events.clone());
        hyperqueue::server::verif::install_event_processor(
            &server.server_ref(),
            state_ref.clone(),
            senders.clone(),
        );
        // A listener that sees everything handed to live clients (including non-persisted events)
        let (ltx, live_rx) = mpsc::unbounded_channel::<Event>();
        events.register_listener(EventFilter::new(None, EventFilterFlags::all()), ltx);
        events.on_server_start(&uid);
        let client = new_client(&state_ref, &senders, &server_dir);
        let mut c = Cluster {
            profile: profile.clone(),
            server,
            state_ref,
            senders,
            journal_rx,
            live_rx,
            journal: Vec::new(),
            flushed: 0,
            pending_flush: Vec::new(),
            workers: BTreeMap::new(),
            shared: Rc::new(RefCell::new(Shared { slow_stop: profile.slow_stop, ..Shared::default() })),
            client,
            streams: Vec::new(),
            orphans: BTreeMap::new(),
            server_dir,
            _tmp: tmp,
            base: Instant::now(),
            vnow: 0,
            n_submits: 0,
            n_opens: 0,
            n_losses: 0,
            n_cancels: 0,
            n_fails: 0,
            n_launch_fails: 0,
            n_stops: 0,
            n_ticks: 0,
            n_connects: 0,
            n_forgets: 0,
            ev: Vec::new(),
            live_ev: Vec::new(),
            sent: Vec::new(),
            jobs: BTreeSet::new(),
            open_jobs: BTreeSet::new(),
            dead: false,
            prunes: Vec::new(),
            n_prunes: 0,
            n_queue_events: 0,
            queues_live: BTreeSet::new(),
            next_queue: 1,
            next_alloc: 1,
        };
        // Register the request classes up-front (stable class ids = profile indices)
        for class in &profile.classes {
            c.server
                .server_ref()
                .get_or_create_resource_rq_id(&make_rqv(class));
        }
        for k in profile.initial_workers.clone() {
            c.connect_worker(k);
        }
        c.collect().await;
        c
    }

    fn now(&self) -> Instant {
        self.base + HOUR * self.vnow
    }

    fn connect_worker(&mut self, kind: usize) -> u32 {
        let k = self.profile.worker_kinds[kind].clone();
        let mut items = vec![ResourceDescriptorItem::range("cpus", 0, k.cpus - 1)];
        if k.gpus > 0 {
            items.push(ResourceDescriptorItem::range("gpus", 0, k.gpus - 1));
        }
        let configuration = WorkerConfiguration {
            resources: ResourceDescriptor::new(items, Default::default()),
            listen_address: format!("h{}:1", self.server.worker_counter() + 1),
            hostname: format!("h{}", self.server.worker_counter() + 1),
            group: if k.group.is_empty() {
                "default".to_string()
            } else {
                k.group.clone()
            },
            work_dir: self._tmp.path().join("work"),
            heartbeat_interval: Duration::from_secs(8),
            overview_configuration: OverviewConfiguration::disabled(),
            idle_timeout: None,
            time_limit: if k.time_limit == 0 {
                None
            } else {
                Some(HOUR * k.time_limit)
            },
            retract_check_interval: HOUR,
            on_server_lost: if self.profile.finish_running { ServerLostPolicy::FinishRunning } else { ServerLostPolicy::Stop },
            min_utilization: 0.0,
            extra: Default::default(),
        };
        let now = self.now();
        let (wid, configuration, response) = self.server.connect_worker(configuration, now);
        let cell = Rc::new(std::cell::Cell::new(wid.as_num()));
        let launcher = SimLauncher {
            worker: cell,
            shared: self.shared.clone(),
        };
        let worker = SimWorker::new(configuration, response, Box::new(launcher));
        let retract = worker.spawn_retract_check(HOUR);
        self.workers.insert(
            wid.as_num(),
            SimW {
                worker,
                s2w: VecDeque::new(),
                w2s: VecDeque::new(),
                stopped: false,
                connected_at: self.vnow,
                time_limit: k.time_limit,
                kind,
                retract,
            },
        );
        wid.as_num()
    }

    /// Moves everything produced by the last step into the harness-owned queues and logs it.
    async fn collect(&mut self) {
        pump().await;
        // journal thread
        if let Some(rx) = self.journal_rx.as_mut() {
            while let Ok(msg) = rx.try_recv() {
                match msg {
                    EventStreamMessage::Event(e) => {
                        self.ev.push(event_json(&e.payload));
                        self.journal.push(e);
                    }
                    EventStreamMessage::FlushJournal(cb) => {
                        if self.profile.manual_flush {
                            self.pending_flush.push(cb);
                        } else {
                            self.flushed = self.journal.len();
                            let _ = cb.send(());
                        }
                    }
                    EventStreamMessage::ReplayJournal(tx) => {
                        for e in &self.journal {
                            let _ = tx.send(e.clone());
                        }
                    }
                    EventStreamMessage::PruneJournal {
                        callback,
                        live_jobs,
                        live_workers,
                    } => {
                        // what streaming_process does: flush, prune into a new file, continue appending to it
                        self.flushed = self.journal.len();
                        match crate::journal::prune_events(self._tmp.path(), &self.journal, &live_jobs, &live_workers) {
                            Ok(after) => {
                                let mut lj: Vec<u32> = live_jobs.iter().map(|j| j.as_num()).collect();
                                lj.sort_unstable();
                                let mut lw: Vec<u32> = live_workers.iter().map(|w| w.as_num()).collect();
                                lw.sort_unstable();
                                self.prunes.push(PruneLog {
                                    before: self.journal.clone(),
                                    after: after.clone(),
                                    live_jobs: lj,
                                    live_workers: lw,
                                });
                                self.journal = after;
                                self.flushed = self.journal.len();
                            }
                            Err(e) => {
                                self.ev.push(json!({"k": "PruneFailed", "err": e}));
                            }
                        }
                        let _ = callback.send(());
                    }
                }
            }
            pump().await;
        }
        while let Ok(e) = self.live_rx.try_recv() {
            self.live_ev.push(event_json(&e.payload));
        }
        // server -> worker
        let ids: Vec<u32> = self.workers.keys().copied().collect();
        for w in ids {
            let msgs = self.server.take_messages(WorkerId::new(w));
            let sw = self.workers.get_mut(&w).unwrap();
            for m in msgs {
                if is_infra(&m) {
                    // infrastructure messages are delivered eagerly (they commute with task messages)
                    if !sw.stopped {
                        sw.worker.recv(m);
                    }
                } else {
                    self.sent
                        .push(json!({"ch": "s2w", "w": w, "m": to_worker_json(&m).unwrap()}));
                    sw.s2w.push_back(m);
                }
            }
            let out = sw.worker.take_messages();
            for m in out {
                self.sent
                    .push(json!({"ch": "w2s", "w": w, "m": from_worker_json(&m)}));
                sw.w2s.push_back(m);
            }
        }
        // orphaned workers: what they still say goes nowhere; once the policy code is satisfied the worker ends
        let finished: Vec<u32> = self.orphans.iter().filter(|(_, o)| o.done.get()).map(|(w, _)| *w).collect();
        for o in self.orphans.values_mut() {
            let _ = o.sw.worker.take_messages();
        }
        for w in finished {
            if let Some(mut o) = self.orphans.remove(&w) {
                o.sw.worker.shutdown();
                self.shared.borrow_mut().handles.retain(|(ww, _), _| *ww != w);
                self.shared.borrow_mut().dying.retain(|(ww, _), _| *ww != w);
            }
        }
        // streaming clients
        let mut someone_left = false;
        for sc in self.streams.iter_mut() {
            while let Ok(Some(m)) = sc.conn.rx.try_next() {
                match m {
                    ToClientMessage::SubmitResponse(_) => sc.got_response = true,
                    ToClientMessage::Event(e) => {
                        if let EventPayload::JobCompleted(j) = e.payload {
                            if j.as_num() == sc.job {
                                sc.got_completed = true;
                                // two of three waiting clients leave right away, the others keep the connection
                                if sc.job % 3 != 0 && !sc.left {
                                    sc.left = true;
                                    sc.conn.tx.close_channel();
                                    someone_left = true;
                                }
                            }
                        }
                    }
                    _ => {}
                }
            }
        }
        if someone_left {
            // the server notices the closed connection (client_rpc_loop ends and unregisters the listener)
            pump().await;
        }
    }

    async fn client_request(&mut self, msg: FromClientMessage) -> Option<ToClientMessage> {
        self.client.tx.unbounded_send(Ok(msg)).unwrap();
        self.collect().await;
        for _ in 0..200 {
            match self.client.rx.try_next() {
                Ok(Some(m)) => return Some(m),
                Ok(None) => return None,
                Err(_) => {
                    if !self.pending_flush.is_empty() {
                        return None;
                    }
                    // e.g. waiting for spawn_blocking in ForgetJob
                    std::thread::sleep(Duration::from_millis(1));
                    self.collect().await;
                }
            }
        }
        None
    }

    pub fn enabled(&self) -> Vec<Choice> {
        let p = &self.profile;
        let mut out = Vec::new();
        if self.dead {
            return out;
        }
        if !self.pending_flush.is_empty() {
            out.push(Choice::FlushAck);
        }
        let client_free = self.pending_flush.is_empty();
        if self.server.scheduling_flag() {
            out.push(Choice::Schedule);
        }
        for (w, sw) in &self.workers {
            if !sw.s2w.is_empty() && !sw.stopped {
                out.push(Choice::S2W { w: *w });
            }
            if !sw.w2s.is_empty() {
                out.push(Choice::W2S { w: *w });
            }
        }
        {
            let shared = self.shared.borrow();
            for ((w, t), _) in shared.dying.iter() {
                out.push(Choice::Die { w: *w, t: *t });
            }
            for ((w, t), _) in shared.handles.iter() {
                out.push(Choice::Exit {
                    w: *w,
                    t: *t,
                    ok: true,
                });
                if self.n_fails < p.fails {
                    out.push(Choice::Exit {
                        w: *w,
                        t: *t,
                        ok: false,
                    });
                }
            }
        }
        if client_free {
            if self.n_submits < p.max_submits {
                for (i, s) in p.submits.iter().enumerate() {
                    if !s.into_open || !self.open_jobs.is_empty() {
                        out.push(Choice::Submit { spec: i });
                    }
                }
            }
            if self.n_opens < p.opens {
                out.push(Choice::Open);
            }
            for j in &self.open_jobs {
                out.push(Choice::Close { job: *j });
            }
            if self.n_cancels < p.cancels {
                for j in &self.jobs {
                    out.push(Choice::Cancel { job: *j });
                }
            }
            if self.n_forgets < p.forgets {
                for j in &self.jobs {
                    out.push(Choice::Forget { job: *j });
                }
            }
            if self.n_stops < p.stops {
                for (w, sw) in &self.workers {
                    if !sw.stopped {
                        out.push(Choice::Stop { w: *w });
                    }
                }
            }
        }
        if self.n_losses < p.losses {
            for w in self.workers.keys() {
                for r in ["connection", "heartbeat", "idle", "timelimit"] {
                    out.push(Choice::Lose {
                        w: *w,
                        reason: r.to_string(),
                    });
                }
            }
        }
        // a worker that received Stop closes its connection
        for (w, sw) in &self.workers {
            if sw.stopped {
                out.push(Choice::Lose {
                    w: *w,
                    reason: "connection".to_string(),
                });
            }
        }
        if self.n_connects < p.max_connects {
            for k in 0..p.worker_kinds.len() {
                out.push(Choice::Connect { kind: k });
            }
        }
        if self.n_ticks < p.ticks {
            out.push(Choice::Tick);
        }
        if client_free && self.n_prunes < p.prunes && p.journal {
            out.push(Choice::Prune);
        }
        if self.n_queue_events < p.queue_events && p.journal {
            for k in 0..4 {
                if k == 0 || !self.queues_live.is_empty() {
                    out.push(Choice::QueueEvent { kind: k });
                }
            }
        }
        if self.n_launch_fails < p.launch_fails {
            // a launch failure can be armed for a task that is on its way to a worker
            let mut cands = BTreeSet::new();
            for sw in self.workers.values() {
                for m in &sw.s2w {
                    if let ToWorkerMessage::ComputeTasks(msg) = m {
                        for t in &msg.tasks {
                            cands.insert(tid_of(t.id));
                        }
                    }
                }
            }
            let armed = self.shared.borrow().fail_launch.clone();
            for t in cands {
                if !armed.contains(&t) {
                    out.push(Choice::FailLaunch { t });
                }
            }
        }
        out
    }

    /// Choices of the fault-free drain.
    pub fn drain_choices(&self) -> Vec<Choice> {
        self.enabled()
            .into_iter()
            .filter(|c| match c {
                Choice::Schedule | Choice::S2W { .. } | Choice::W2S { .. } | Choice::FlushAck => true,
                Choice::Exit { ok, .. } => *ok,
                Choice::Die { .. } => true,
                Choice::Lose { w, .. } => self.workers.get(w).map(|sw| sw.stopped).unwrap_or(false),
                _ => false,
            })
            .collect()
    }

    fn build_submit(&self, spec: &SubmitSpec) -> (SubmitRequest, Value) {
        let p = &self.profile;
        let job_id = if spec.into_open {
            self.open_jobs.iter().next_back().copied()
        } else {
            None
        };
        let (task_desc_, tasks_json) = if !spec.graph.is_empty() {
            let mut classes: Vec<usize> = Vec::new();
            let tasks: Vec<TaskWithDependencies> = spec
                .graph
                .iter()
                .map(|g| {
                    let idx = match classes.iter().position(|c| *c == g.class) {
                        Some(i) => i,
                        None => {
                            classes.push(g.class);
                            classes.len() - 1
                        }
                    };
                    TaskWithDependencies {
                        id: JobTaskId::new(g.id),
                        resource_rq_id: LocalResourceRqId::new(idx as u32),
                        task_desc: task_desc_padded(g.prio, spec.crash_limit, if g.tl > 0 { g.tl } else { spec.time_limit }, g.pad_mb, g.pad_fill),
                        task_deps: g.deps.iter().map(|d| JobTaskId::new(*d)).collect(),
                    }
                })
                .collect();
            let tj: Vec<Value> = spec
                .graph
                .iter()
                .map(|g| json!({"id": g.id, "deps": g.deps, "class": g.class, "prio": g.prio, "tl": if g.tl > 0 { g.tl } else { spec.time_limit }}))
                .collect();
            (
                JobTaskDescription::Graph {
                    resource_rqs: classes.iter().map(|c| make_rqv(&p.classes[*c])).collect(),
                    tasks,
                },
                json!(tj),
            )
        } else {
            let ids = if spec.ids.is_empty() {
                IntArray::new_empty()
            } else {
                let mut ids = spec.ids.clone();
                ids.sort_unstable();
                IntArray::from_sorted_ids(ids.into_iter())
            };
            let entries = if spec.entries > 0 {
                Some(
                    (0..spec.entries)
                        .map(|i| thin_vec::thin_vec![b'e', i as u8])
                        .collect(),
                )
            } else {
                None
            };
            (
                JobTaskDescription::Array {
                    ids,
                    entries,
                    resource_rq: make_rqv(&p.classes[spec.class]),
                    task_desc: task_desc(spec.prio, spec.crash_limit, spec.time_limit),
                },
                json!([]),
            )
        };
        let req = SubmitRequest {
            job_desc: JobDescription {
                name: "j".to_string(),
                max_fails: if spec.max_fails < 0 {
                    None
                } else {
                    Some(spec.max_fails as u32)
                },
            },
            submit_desc: JobSubmitDescription {
                task_desc: task_desc_,
                submit_dir: PathBuf::from("/nonexistent-hqv"),
                stream_path: None,
            },
            job_id: job_id.map(JobId::new),
        };
        let args = json!({
            "job": job_id.map(|j| j as i64).unwrap_or(-1), "ids": spec.ids, "entries": spec.entries,
            "graph": tasks_json, "class": spec.class, "prio": spec.prio, "crash_limit": spec.crash_limit,
            "time_limit": spec.time_limit, "max_fails": spec.max_fails, "stream": spec.stream,
        });
        (req, args)
    }

    fn submit_response_json(&mut self, resp: &Option<ToClientMessage>) -> Value {
        match resp {
            Some(ToClientMessage::SubmitResponse(SubmitResponse::Ok { job, .. })) => {
                self.jobs.insert(job.info.id.as_num());
                json!({"ok": true, "job": job.info.id.as_num(),
                       "tasks": job.tasks.iter().map(|(t, _)| t.as_num()).collect::<Vec<_>>(),
                       "n_tasks": job.info.n_tasks})
            }
            Some(ToClientMessage::SubmitResponse(r)) => {
                let why = match r {
                    SubmitResponse::JobNotOpened => "not_open",
                    SubmitResponse::JobNotFound => "not_found",
                    SubmitResponse::TaskIdAlreadyExists(_) => "exists",
                    SubmitResponse::NonUniqueTaskId(_) => "non_unique",
                    SubmitResponse::InvalidDependencies(_) => "invalid_deps",
                    SubmitResponse::Ok { .. } => unreachable!(),
                };
                json!({"ok": false, "why": why})
            }
            Some(ToClientMessage::Error(e)) => json!({"ok": false, "why": "error", "msg": e}),
            None => json!({"pending": true}),
            _ => json!({"ok": false, "why": "unexpected"}),
        }
    }

    /// Applies one choice to the real system; returns (action name, args, response).
    pub async fn apply(&mut self, c: &Choice) -> (String, Value, Value) {
        // keep the workers' notion of elapsed life time in sync with virtual time
        for sw in self.workers.values_mut() {
            if sw.time_limit > 0 {
                let el = self.vnow - sw.connected_at;
                sw.worker.set_elapsed(HOUR * el);
            }
        }
        match c {
            Choice::Submit { spec } => {
                let spec = self.profile.submits[*spec].clone();
                self.n_submits += 1;
                let (req, args) = self.build_submit(&spec);
                if spec.stream {
                    let conn = new_client(&self.state_ref, &self.senders, &self.server_dir);
                    let mut flags = EventFilterFlags::empty();
                    flags.insert(EventFilterFlags::JOB_EVENTS);
                    let stream = StreamEvents {
                        mode: StreamEventsMode::LiveEvents,
                        enable_worker_overviews: false,
                        filter: EventFilter::new(None, flags),
                    };
                    conn.tx
                        .unbounded_send(Ok(FromClientMessage::Submit(req, Some(stream))))
                        .unwrap();
                    // the job id the server will assign (needed to recognise the completion event)
                    let before: BTreeSet<u32> = self.all_job_ids();
                    self.streams.push(StreamClient {
                        job: 0,
                        conn,
                        got_response: false,
                        got_completed: false,
                        left: false,
                    });
                    self.collect().await;
                    let after = self.all_job_ids();
                    let new: Vec<u32> = after.difference(&before).copied().collect();
                    let jid = if let Some(j) = new.first() {
                        *j
                    } else {
                        req_job(&args)
                    };
                    if let Some(sc) = self.streams.last_mut() {
                        sc.job = jid;
                    }
                    if jid > 0 {
                        self.jobs.insert(jid);
                    }
                    self.collect().await;
                    let tasks = self.job_task_ids(jid);
                    ("Submit".into(), args, json!({"ok": jid > 0, "job": jid, "tasks": tasks, "stream": true}))
                } else {
                    let resp = self
                        .client_request(FromClientMessage::Submit(req, None))
                        .await;
                    let r = self.submit_response_json(&resp);
                    ("Submit".into(), args, r)
                }
            }
            Choice::Open => {
                self.n_opens += 1;
                let resp = self
                    .client_request(FromClientMessage::OpenJob(JobDescription {
                        name: "o".into(),
                        max_fails: None,
                    }))
                    .await;
                let r = match resp {
                    Some(ToClientMessage::OpenJobResponse(r)) => {
                        self.jobs.insert(r.job_id.as_num());
                        self.open_jobs.insert(r.job_id.as_num());
                        json!({"job": r.job_id.as_num()})
                    }
                    None => json!({"pending": true}),
                    _ => json!({"error": true}),
                };
                ("Open".into(), json!({}), r)
            }
            Choice::Close { job } => {
                let resp = self
                    .client_request(FromClientMessage::CloseJob(CloseJobRequest {
                        selector: IdSelector::Specific(IntArray::from_id(*job)),
                    }))
                    .await;
                self.open_jobs.remove(job);
                let r = match resp {
                    Some(ToClientMessage::CloseJobResponse(rs)) => {
                        let v: Vec<Value> = rs
                            .iter()
                            .map(|(j, r)| {
                                json!({"job": j.as_num(), "r": match r {
                                    CloseJobResponse::Closed => "closed",
                                    CloseJobResponse::InvalidJob => "invalid",
                                    CloseJobResponse::AlreadyClosed => "already"}})
                            })
                            .collect();
                        json!(v)
                    }
                    None => json!({"pending": true}),
                    _ => json!({"error": true}),
                };
                ("Close".into(), json!({"job": job}), r)
            }
            Choice::Cancel { job } => {
                self.n_cancels += 1;
                let resp = self
                    .client_request(FromClientMessage::Cancel(CancelRequest {
                        selector: IdSelector::Specific(IntArray::from_id(*job)),
                        reason: None,
                    }))
                    .await;
                let r = match resp {
                    Some(ToClientMessage::CancelJobResponse(rs)) => {
                        let v: Vec<Value> = rs
                            .iter()
                            .map(|(j, r)| match r {
                                CancelJobResponse::Canceled(ts, already) => {
                                    json!({"job": j.as_num(), "r": "canceled",
                                           "tasks": ts.iter().map(|t| j.as_num() as u64 * 1000 + t.as_num() as u64).collect::<Vec<_>>(),
                                           "already": already})
                                }
                                CancelJobResponse::InvalidJob => json!({"job": j.as_num(), "r": "invalid", "tasks": [], "already": 0}),
                                CancelJobResponse::Failed(_) => json!({"job": j.as_num(), "r": "failed", "tasks": [], "already": 0}),
                            })
                            .collect();
                        json!({"answered": true, "jobs": v})
                    }
                    None => json!({"answered": false, "jobs": []}),
                    _ => json!({"answered": false, "jobs": [], "error": true}),
                };
                ("Cancel".into(), json!({"job": job}), r)
            }
            Choice::Forget { job } => {
                self.n_forgets += 1;
                let resp = self
                    .client_request(FromClientMessage::ForgetJob(ForgetJobRequest {
                        selector: IdSelector::Specific(IntArray::from_id(*job)),
                        filter: vec![
                            hyperqueue::client::status::Status::Finished,
                            hyperqueue::client::status::Status::Failed,
                            hyperqueue::client::status::Status::Canceled,
                        ],
                    }))
                    .await;
                let r = match resp {
                    Some(ToClientMessage::ForgetJobResponse(r)) => {
                        if r.forgotten > 0 {
                            self.jobs.remove(job);
                        }
                        json!({"forgotten": r.forgotten, "ignored": r.ignored})
                    }
                    _ => json!({"error": true}),
                };
                ("Forget".into(), json!({"job": job}), r)
            }
            Choice::Query { job } => {
                let resp = self
                    .client_request(FromClientMessage::JobDetail(JobDetailRequest {
                        job_id_selector: IdSelector::Specific(IntArray::from_id(*job)),
                        task_selector: Some(TaskSelector {
                            id_selector: TaskIdSelector::All,
                            status_selector: TaskStatusSelector::All,
                        }),
                    }))
                    .await;
                let r = match resp {
                    Some(ToClientMessage::JobDetailResponse(d)) => {
                        let v: Vec<Value> = d
                            .details
                            .iter()
                            .map(|(j, det)| match det {
                                None => json!({"job": j.as_num(), "found": false}),
                                Some(det) => json!({"job": j.as_num(), "found": true,
                                    "status": std::panic::catch_unwind(std::panic::AssertUnwindSafe(|| format!("{:?}", hyperqueue::client::status::job_status(&det.info))))
                                        .unwrap_or_else(|_| { let _ = crate::panics::take(); "Panic".to_string() }),
                                    "n_tasks": det.info.n_tasks, "open": det.info.is_open,
                                    "cnt": counters_json(&det.info.counters),
                                    "tasks": det.tasks.iter().map(|(t, i)| json!({"t": j.as_num() as u64 * 1000 + t.as_num() as u64, "s": state_name(&i.state)})).collect::<Vec<_>>()}),
                            })
                            .collect();
                        json!(v)
                    }
                    _ => json!([]),
                };
                ("Query".into(), json!({"job": job}), r)
            }
            Choice::Schedule => {
                let now = self.now();
                let r = self.server.schedule(now);
                self.collect().await;
                ("Schedule".into(), json!({}), json!({"r": r}))
            }
            Choice::S2W { w } => {
                let sw = self.workers.get_mut(w).unwrap();
                let m = sw.s2w.pop_front().unwrap();
                let mj = to_worker_json(&m).unwrap();
                let stop = sw.worker.recv(m);
                if stop {
                    sw.stopped = true;
                    sw.worker.shutdown();
                }
                self.collect().await;
                ("S2W".into(), json!({"w": w, "m": mj}), json!({"stop": stop}))
            }
            Choice::W2S { w } => {
                let sw = self.workers.get_mut(w).unwrap();
                let m = sw.w2s.pop_front().unwrap();
                let mj = from_worker_json(&m);
                let stop = self.server.recv_from_worker(WorkerId::new(*w), m);
                if stop {
                    // worker_receive_loop returns, worker_rpc_loop removes the worker at once
                    let mut sw = self.workers.remove(w).unwrap();
                    sw.retract.abort();
                    sw.worker.shutdown();
                    self.shared.borrow_mut().handles.retain(|(ww, _), _| ww != w);
                self.shared.borrow_mut().dying.retain(|(ww, _), _| ww != w);
                    self.server
                        .lose_worker(WorkerId::new(*w), LostWorkerReason::TimeLimitReached);
                    drop(sw);
                    self.collect().await;
                    return (
                        "Lose".into(),
                        json!({"w": w, "reason": "timelimit", "fail": false, "was_stopped": true, "dropped_w2s": [], "via_stop": true}),
                        json!({}),
                    );
                }
                self.collect().await;
                ("W2S".into(), json!({"w": w, "m": mj}), json!({}))
            }
            Choice::Exit { w, t, ok } => {
                if !*ok {
                    self.n_fails += 1;
                }
                let h = self.shared.borrow_mut().handles.remove(&(*w, *t));
                let mut inst = 0;
                if let Some(h) = h {
                    inst = h.inst;
                    let _ = h.tx.send(if *ok {
                        Ok(TaskResult::Finished)
                    } else {
                        Err("simulated task failure".to_string())
                    });
                }
                self.collect().await;
                ("Exit".into(), json!({"w": w, "t": t, "ok": ok, "inst": inst}), json!({}))
            }
            Choice::Die { w, t } => {
                let d = self.shared.borrow_mut().dying.remove(&(*w, *t));
                let mut inst = 0;
                if let Some((i, tx)) = d {
                    inst = i;
                    let _ = tx.send(());
                }
                self.collect().await;
                ("Die".into(), json!({"w": w, "t": t, "inst": inst}), json!({}))
            }
            Choice::Lose { w, reason } => {
                let was_stopped = self.workers.get(w).map(|s| s.stopped).unwrap_or(false);
                if !was_stopped {
                    self.n_losses += 1;
                }
                let mut sw = self.workers.remove(w).unwrap();
                sw.retract.abort();
                let dropped_w2s: Vec<Value> = sw.w2s.iter().map(from_worker_json).collect();
                if self.profile.finish_running && reason == "connection" && !was_stopped {
                    // the worker goes on alone: the real policy code decides what it still does; its executions stay alive
                    let fut = sw.worker.server_lost();
                    let done = Rc::new(std::cell::Cell::new(false));
                    let d2 = done.clone();
                    tokio::task::spawn_local(async move {
                        fut.await;
                        d2.set(true);
                    });
                    sw.s2w.clear();
                    sw.w2s.clear();
                    self.server.lose_worker(WorkerId::new(*w), reason_from(reason));
                    self.orphans.insert(*w, Orphan { sw, done });
                } else {
                    sw.worker.shutdown();
                    self.shared.borrow_mut().handles.retain(|(ww, _), _| ww != w);
                    self.shared.borrow_mut().dying.retain(|(ww, _), _| ww != w);
                    self.server.lose_worker(WorkerId::new(*w), reason_from(reason));
                    drop(sw);
                }
                self.collect().await;
                (
                    "Lose".into(),
                    json!({"w": w, "reason": reason, "fail": loss_is_failure(reason_from(reason)),
                           "was_stopped": was_stopped, "dropped_w2s": dropped_w2s, "via_stop": false}),
                    json!({}),
                )
            }
            Choice::Connect { kind } => {
                self.n_connects += 1;
                let w = self.connect_worker(*kind);
                self.collect().await;
                ("Connect".into(), json!({"kind": kind, "w": w}), json!({"w": w}))
            }
            Choice::Stop { w } => {
                self.n_stops += 1;
                let resp = self
                    .client_request(FromClientMessage::StopWorker(StopWorkerMessage {
                        selector: IdSelector::Specific(IntArray::from_id(*w)),
                    }))
                    .await;
                ("Stop".into(), json!({"w": w}), json!({"answered": resp.is_some()}))
            }
            Choice::Tick => {
                self.n_ticks += 1;
                self.vnow += 1;
                self.shared.borrow_mut().vnow = self.vnow;
                for sw in self.workers.values_mut() {
                    if sw.time_limit > 0 {
                        let el = self.vnow - sw.connected_at;
                        sw.worker.set_elapsed(HOUR * el);
                    }
                }
                tokio::time::advance(HOUR).await;
                self.collect().await;
                // a worker whose life time is over announces its stop and ends (run_worker's time_limit_fut)
                let mut ended = Vec::new();
                for (w, sw) in self.workers.iter_mut() {
                    if sw.time_limit > 0 && !sw.stopped && self.vnow - sw.connected_at >= sw.time_limit {
                        sw.stopped = true;
                        sw.worker.shutdown();
                        sw.w2s.push_back(FromWorkerMessage::Stop(
                            tako::internal::messages::worker::WorkerStopReason::TimeLimitReached,
                        ));
                        ended.push(*w);
                    }
                }
                self.collect().await;
                ("Tick".into(), json!({"now": self.vnow, "ended": ended}), json!({}))
            }
            Choice::FlushAck => {
                self.flushed = self.journal.len();
                for cb in self.pending_flush.drain(..) {
                    let _ = cb.send(());
                }
                self.collect().await;
                // the reply of the request that was waiting for the flush
                let mut r = json!({});
                if let Ok(Some(m)) = self.client.rx.try_next() {
                    r = match &m {
                        ToClientMessage::SubmitResponse(_) => self.submit_response_json(&Some(m)),
                        ToClientMessage::OpenJobResponse(o) => {
                            self.jobs.insert(o.job_id.as_num());
                            self.open_jobs.insert(o.job_id.as_num());
                            json!({"job": o.job_id.as_num()})
                        }
                        _ => json!({"other": true}),
                    };
                }
                ("FlushAck".into(), json!({}), r)
            }
            Choice::Prune => {
                self.n_prunes += 1;
                let before = self.journal.len();
                let resp = self.client_request(FromClientMessage::PruneJournal).await;
                (
                    "Prune".into(),
                    json!({"before": before, "after": self.journal.len()}),
                    json!({"answered": resp.is_some()}),
                )
            }
            Choice::QueueEvent { kind } => {
                self.n_queue_events += 1;
                let ev = self.senders.events.clone();
                let args = match kind {
                    0 => {
                        let q = self.next_queue;
                        self.next_queue += 1;
                        self.queues_live.insert(q);
                        ev.on_allocation_queue_created(q, queue_params());
                        json!({"kind": "created", "q": q})
                    }
                    1 => {
                        let q = *self.queues_live.iter().next_back().unwrap();
                        let a = format!("a{}", self.next_alloc);
                        self.next_alloc += 1;
                        ev.on_allocation_queued(q, a.clone(), 1);
                        json!({"kind": "queued", "q": q, "a": a})
                    }
                    _ => {
                        // kind 2 removes the oldest live queue, kind 3 the newest (so that a lower id survives a higher one)
                        let q = if *kind == 2 { *self.queues_live.iter().next().unwrap() } else { *self.queues_live.iter().next_back().unwrap() };
                        self.queues_live.remove(&q);
                        ev.on_allocation_queue_removed(q);
                        json!({"kind": "removed", "q": q})
                    }
                };
                self.collect().await;
                ("QueueEvent".into(), args, json!({}))
            }
            Choice::FailLaunch { t } => {
                self.n_launch_fails += 1;
                self.shared.borrow_mut().fail_launch.insert(*t);
                ("FailLaunch".into(), json!({"t": t}), json!({}))
            }
        }
    }

    /// live jobs / workers as `handle_prune_journal` computes them
    pub fn live_sets(&self) -> (Set<JobId>, Set<WorkerId>) {
        let st = self.state_ref.get();
        let lj: Set<JobId> = st.jobs().filter(|j| !j.is_terminated()).map(|j| j.job_id).collect();
        let lw: Set<WorkerId> = st
            .get_workers()
            .values()
            .filter(|w| w.is_running())
            .map(|w| w.worker_id())
            .collect();
        (lj, lw)
    }

    fn all_job_ids(&self) -> BTreeSet<u32> {
        self.state_ref
            .get()
            .jobs()
            .map(|j| j.job_id.as_num())
            .collect()
    }

    fn job_task_ids(&self, job: u32) -> Vec<u32> {
        let st = self.state_ref.get();
        let mut v: Vec<u32> = st
            .get_job(JobId::new(job))
            .map(|j| j.tasks.keys().map(|t| t.as_num()).collect())
            .unwrap_or_default();
        v.sort_unstable();
        v
    }

    pub fn take_step_logs(&mut self) -> (Vec<Value>, Vec<Value>, Vec<Value>, Vec<Value>, Vec<Value>) {
        let mut sh = self.shared.borrow_mut();
        (
            std::mem::take(&mut self.sent),
            std::mem::take(&mut self.ev),
            std::mem::take(&mut self.live_ev),
            std::mem::take(&mut sh.starts),
            std::mem::take(&mut sh.stops),
        )
    }

    pub fn requests(&self) -> Value {
        let mut r = self.server.snapshot()["requests"].clone();
        for class in r.as_array_mut().unwrap() {
            for v in class.as_array_mut().unwrap() {
                let s = v["min_time_s"].as_u64().unwrap_or(0);
                v["min_time"] = json!(s / 3600);
            }
        }
        r
    }

    pub fn snapshot(&self) -> Value {
        let mut srv = self.server.snapshot();
        srv.as_object_mut().unwrap().remove("requests");
        let wk: Vec<Value> = self
            .workers
            .iter()
            .map(|(w, sw)| {
                let mut s = sw.worker.snapshot();
                s["stopped"] = json!(sw.stopped);
                s["kind"] = json!(sw.kind);
                s["s2w"] = json!(sw.s2w.iter().filter_map(to_worker_json).collect::<Vec<_>>());
                s["w2s"] = json!(sw.w2s.iter().map(from_worker_json).collect::<Vec<_>>());
                s["id"] = json!(w);
                s["remaining"] = if sw.time_limit == 0 {
                    json!(-1)
                } else {
                    // (a worker past its end of life that the server has not removed yet has nothing left; negative = no limit)
                    json!((sw.time_limit as i64 - (self.vnow - sw.connected_at) as i64).max(0))
                };
                s
            })
            .collect();
        let st = self.state_ref.get();
        let mut jobs: Vec<Value> = st
            .jobs()
            .map(|j| {
                let mut tasks: Vec<Value> = j
                    .tasks
                    .iter()
                    .map(|(t, info)| {
                        json!({"t": j.job_id.as_num() as u64 * 1000 + t.as_num() as u64, "s": state_name(&info.state)})
                    })
                    .collect();
                tasks.sort_by_key(|t| t["t"].as_u64());
                json!({"id": j.job_id.as_num(), "open": j.is_open, "completed": j.completion_date.is_some(),
                       "n_tasks": j.n_tasks(), "cnt": counters_json(&j.counters), "tasks": tasks,
                       "max_fails": j.job_desc.max_fails.map(|x| x as i64).unwrap_or(-1)})
            })
            .collect();
        jobs.sort_by_key(|j| j["id"].as_u64());
        let running: Vec<Value> = self
            .shared
            .borrow()
            .handles
            .iter()
            .map(|((w, t), h)| json!({"w": w, "t": t, "inst": h.inst}))
            .collect();
        let streams: Vec<Value> = self
            .streams
            .iter()
            .map(|s| json!({"job": s.job, "resp": s.got_response, "completed": s.got_completed}))
            .collect();
        let dying: Vec<Value> = self
            .shared
            .borrow()
            .dying
            .iter()
            .map(|((w, t), (inst, _))| json!({"w": w, "t": t, "inst": inst}))
            .collect();
        json!({
            "srv": srv, "wk": wk, "jobs": jobs, "fut": running, "dying": dying, "streams": streams,
            "jlen": self.journal.len(), "flushed": self.flushed, "now": self.vnow,
            "pending_flush": self.pending_flush.len(),
        })
    }

    pub fn shutdown(&mut self) {
        for sw in self.workers.values_mut() {
            sw.retract.abort();
        }
        self.client.task.abort();
        for s in &self.streams {
            s.conn.task.abort();
        }
    }
}

fn req_job(args: &Value) -> u32 {
    args["job"].as_i64().filter(|j| *j > 0).unwrap_or(0) as u32
}

fn counters_json(c: &hyperqueue::server::job::JobTaskCounters) -> Value {
    json!({"running": c.n_running_tasks, "finished": c.n_finished_tasks, "failed": c.n_failed_tasks,
           "canceled": c.n_canceled_tasks, "aborted": c.n_aborted_tasks})
}

pub fn state_name_pub(s: &JobTaskState) -> &'static str {
    state_name(s)
}

fn queue_params() -> hyperqueue::server::autoalloc::QueueParameters {
    hyperqueue::server::autoalloc::QueueParameters {
        manager: hyperqueue::common::manager::info::ManagerType::Slurm,
        max_workers_per_alloc: 1,
        backlog: 1,
        timelimit: Duration::from_secs(3600),
        name: None,
        max_worker_count: None,
        min_utilization: 0.0,
        additional_args: vec![],
        worker_start_cmd: None,
        worker_stop_cmd: None,
        worker_wrap_cmd: None,
        cli_resource_descriptor: None,
        worker_args: vec![],
        idle_timeout: None,
    }
}

fn state_name(s: &JobTaskState) -> &'static str {
    match s {
        JobTaskState::Waiting => "Waiting",
        JobTaskState::Running { .. } => "Running",
        JobTaskState::Finished { .. } => "Finished",
        JobTaskState::Failed { .. } => "Failed",
        JobTaskState::Canceled { .. } => "Canceled",
        JobTaskState::Aborted { .. } => "Aborted",
    }
}

/// One trace line.
pub fn line(
    run: u64,
    i: usize,
    action: &str,
    args: Value,
    resp: Value,
    c: &mut Cluster,
    panic: Option<Value>,
) -> Value {
    let (sent, ev, live, starts, stops) = c.take_step_logs();
    let st = if panic.is_some() {
        json!({})
    } else {
        match std::panic::catch_unwind(std::panic::AssertUnwindSafe(|| c.snapshot())) {
            Ok(v) => v,
            Err(_) => json!({}),
        }
    };
    let pan = if panic.is_some() { 1 } else { 0 };
    json!({"run": run, "i": i, "a": action, "args": args, "resp": resp, "sent": sent, "ev": ev,
           "live": live, "starts": starts, "stops": stops, "pan": pan,
           "panic": panic.unwrap_or(json!({"loc": "", "msg": ""})), "st": st})
}

pub fn take_panic() -> Option<Value> {
    panics::take().map(|(loc, msg)| json!({"loc": loc, "msg": msg}))
}
