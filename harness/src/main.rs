mod alloc;
mod auth;
mod authretry;
mod boot;
mod autoalloc;
mod cluster;
mod journal;
mod panics;
mod profiles;
mod sched;
mod stream;
mod walk;

fn main() {
    let args: Vec<String> = std::env::args().collect();
    if args.len() < 2 {
        eprintln!("usage: hqv <cluster|...> ...");
        std::process::exit(2);
    }
    let code = match args[1].as_str() {
        "cluster" => walk::main(&args[2..]),
        "journal" => journal::main(&args[2..]),
        "alloc" => alloc::main(&args[2..]),
        "auth" => auth::main(&args[2..]),
        "boot" => boot::main(&args[2..]),
        "authretry" => authretry::main(&args[2..]),
        "stream" => stream::main(&args[2..]),
        "sched" => sched::main(&args[2..]),
        "autoalloc" => autoalloc::main(&args[2..]),
        _ => {
            eprintln!("unknown command {}", args[1]);
            2
        }
    };
    std::process::exit(code);
}
