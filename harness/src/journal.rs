//! Journal harness: the journals produced by real executions of the cluster simulation are cut at
//! every record boundary (and inside the last record), restored with the real `StateRestorer`
//! into a fresh server, pruned with the real `prune_journal`, and the outcomes are logged for
//! validation against spec/Journal.tla.

use std::io::Write;
use std::path::{Path, PathBuf};

use serde_json::{Value, json};

use hyperqueue::server::event::Event;
use hyperqueue::server::event::journal::{JournalReader, JournalWriter};
use hyperqueue::server::state::StateRef;
use hyperqueue::transfer::messages::ServerInfo;
use tako::server::SchedulerConfig;
use tako::verif::SimServer;
use tako::{JobId, Set, WorkerId};

use crate::cluster::{Cluster, event_json, state_name_pub};
use crate::panics;

pub fn write_journal(path: &Path, events: &[Event]) -> Vec<u64> {
    let _ = std::fs::remove_file(path);
    let mut sizes = Vec::with_capacity(events.len() + 1);
    let mut w = JournalWriter::create_or_append(path, None).unwrap();
    w.flush().unwrap();
    sizes.push(std::fs::metadata(path).unwrap().len());
    for e in events {
        w.store(e.clone()).unwrap();
        w.flush().unwrap();
        sizes.push(std::fs::metadata(path).unwrap().len());
    }
    w.finish().unwrap();
    sizes
}

pub fn read_journal(path: &Path) -> Result<Vec<Event>, String> {
    let mut reader = JournalReader::open(path).map_err(|e| e.to_string())?;
    let mut out = Vec::new();
    for e in &mut reader {
        out.push(e.map_err(|e| e.to_string())?);
    }
    Ok(out)
}

fn fresh_state() -> (SimServer, StateRef) {
    let server = SimServer::new(
        "fresh".to_string(),
        WorkerId::new(0),
        SchedulerConfig {
            proactive_filling_reserve: 0,
            proactive_filling_max: 1,
            mip_time_limit: std::time::Duration::from_secs(5),
        },
    );
    let state_ref = StateRef::new(ServerInfo {
        server_uid: "fresh".into(),
        client_host: "h".into(),
        worker_host: "h".into(),
        client_port: 0,
        worker_port: 0,
        version: "v".into(),
        pid: 0,
        start_date: chrono::Utc::now(),
        journal_path: None,
    });
    (server, state_ref)
}

/// Restores the journal file with the real restorer into a fresh state + core and reports what came out.
pub fn restore_file(path: &Path) -> Value {
    let _ = panics::take();
    let r = std::panic::catch_unwind(std::panic::AssertUnwindSafe(|| {
        let (server, state_ref) = fresh_state();
        let events = hyperqueue::server::event::streamer::EventStreamer::new(None);
        let senders = hyperqueue::server::verif::make_senders(server.server_ref(), events);
        hyperqueue::server::verif::install_event_processor(&server.server_ref(), state_ref.clone(), senders);
        let outcome = {
            let mut st = state_ref.get_mut();
            hyperqueue::server::verif::restore(path, &mut st, &server.server_ref())
        };
        match outcome {
            Err(e) => json!({"ok": false, "err": e.to_string(), "pan": 0, "ploc": "", "jc": 0, "wc": 0, "qc": 0, "uid": "", "trunc": -1,
                             "jobs": [], "core": [], "queues": [], "add_err": ""}),
            Ok(o) => {
                let mut add_err = String::new();
                // instance ids / crash counters as handed to the core
                let mut adjust: std::collections::BTreeMap<u64, (u32, u32)> = Default::default();
                for ts in &o.task_submits {
                    for (t, (inst, crash)) in ts.adjust_instance_id_and_crash_counters.iter() {
                        adjust.insert(tako::verif::task_id_num(*t), (inst.as_num(), *crash));
                    }
                }
                let _ = &adjust;
                for ts in o.task_submits {
                    if let Err(e) = server.server_ref().add_new_tasks(ts) {
                        add_err = e.to_string();
                    }
                }
                let snap = server.snapshot();
                let core: Vec<Value> = snap["tasks"]
                    .as_array()
                    .unwrap()
                    .iter()
                    .map(|t| json!({"id": t["id"], "nd": t["nd"], "deps": t["deps"], "inst": t["inst"], "crash": t["crash"], "st": t["st"]}))
                    .collect();
                let st = state_ref.get();
                let mut jobs: Vec<Value> = st
                    .jobs()
                    .map(|j| {
                        let mut tasks: Vec<Value> = j
                            .tasks
                            .iter()
                            .map(|(t, info)| json!({"t": j.job_id.as_num() as u64 * 1000 + t.as_num() as u64, "s": state_name_pub(&info.state)}))
                            .collect();
                        tasks.sort_by_key(|t| t["t"].as_u64());
                        json!({"id": j.job_id.as_num(), "open": j.is_open, "n": j.n_tasks(),
                               "cnt": {"running": j.counters.n_running_tasks, "finished": j.counters.n_finished_tasks,
                                       "failed": j.counters.n_failed_tasks, "canceled": j.counters.n_canceled_tasks,
                                       "aborted": j.counters.n_aborted_tasks},
                               "tasks": tasks})
                    })
                    .collect();
                jobs.sort_by_key(|j| j["id"].as_u64());
                let mut queues: Vec<u32> = o.queues.iter().map(|q| q.0).collect();
                queues.sort_unstable();
                // the id the next queue really gets once the surviving queues have been re-created (not just the restorer's counter)
                let qc_live = crate::autoalloc::live_next_queue_id(server.server_ref(), o.queue_id_counter, &queues);
                json!({"ok": true, "err": "", "pan": 0, "ploc": "", "jc": o.job_id_counter, "wc": o.worker_id_counter.as_num(),
                       "qc": qc_live.min(o.queue_id_counter), "qc_restorer": o.queue_id_counter, "uid": o.server_uid, "trunc": o.truncate_size.map(|x| x as i64).unwrap_or(-1),
                       "jobs": jobs, "core": core, "queues": queues, "add_err": add_err})
            }
        }
    }));
    match r {
        Ok(v) => v,
        Err(_) => {
            let (loc, msg) = panics::take().unwrap_or(("?".into(), "?".into()));
            json!({"ok": false, "err": msg, "pan": 1, "ploc": loc, "jc": 0, "wc": 0, "qc": 0, "uid": "", "trunc": -1,
                   "jobs": [], "core": [], "queues": [], "add_err": ""})
        }
    }
}

fn view(v: &Value) -> Value {
    json!([v["ok"], v["jobs"], v["core"], v["queues"], v["jc"], v["wc"], v["qc"], v["uid"]])
}

pub struct PruneRecord {
    pub before: Vec<Event>,
    pub after: Vec<Event>,
    pub live_jobs: Vec<u32>,
    pub live_workers: Vec<u32>,
}

/// Real prune of an in-memory journal (through files).
pub fn prune_events(dir: &Path, events: &[Event], live_jobs: &Set<JobId>, live_workers: &Set<WorkerId>) -> Result<Vec<Event>, String> {
    let input = dir.join("prune-in.journal");
    let output = dir.join("prune-out.journal");
    write_journal(&input, events);
    let _ = std::fs::remove_file(&output);
    hyperqueue::server::verif::prune(&input, &output, live_jobs, live_workers).map_err(|e| e.to_string())?;
    read_journal(&output)
}

/// The same prune through the REAL journal thread (`start_event_streaming` / `streaming_process`): the first `flushed` records are
/// written and flushed, the rest is still buffered by the writer when the prune request arrives - as it happens on a live server.
pub fn prune_via_stream(dir: &Path, events: &[Event], flushed: usize, live_jobs: &Set<JobId>, live_workers: &Set<WorkerId>) -> Result<Vec<Event>, String> {
    use hyperqueue::server::event::journal::{EventStreamMessage, start_event_streaming};
    let path = dir.join("stream.journal");
    let _ = std::fs::remove_file(&path);
    let writer = JournalWriter::create_or_append(&path, None).map_err(|e| e.to_string())?;
    let (tx, end) = start_event_streaming(writer, &path, std::time::Duration::from_secs(36_000));
    let wait = |rx: tokio::sync::oneshot::Receiver<()>| -> Result<(), String> { futures::executor::block_on(tokio::task::unconstrained(rx)).map_err(|_| "journal thread ended".to_string()) };
    let mut run = || -> Result<(), String> {
        for e in &events[..flushed.min(events.len())] {
            tx.send(EventStreamMessage::Event(e.clone())).map_err(|_| "journal thread ended".to_string())?;
        }
        let (cb, rx) = tokio::sync::oneshot::channel();
        tx.send(EventStreamMessage::FlushJournal(cb)).map_err(|_| "journal thread ended".to_string())?;
        wait(rx)?;
        for e in &events[flushed.min(events.len())..] {
            tx.send(EventStreamMessage::Event(e.clone())).map_err(|_| "journal thread ended".to_string())?;
        }
        let (cb, rx) = tokio::sync::oneshot::channel();
        tx.send(EventStreamMessage::PruneJournal { callback: cb, live_jobs: live_jobs.clone(), live_workers: live_workers.clone() })
            .map_err(|_| "journal thread ended".to_string())?;
        wait(rx)
    };
    let r = run();
    drop(tx);
    futures::executor::block_on(tokio::task::unconstrained(end));
    r?;
    read_journal(&path)
}

/// The job an event belongs to: > 0 a single job, 0 none, -1 several / unknown (batched records).
fn job_of(e: &Event) -> i64 {
    let v = event_json(&e.payload);
    if let Some(j) = v.get("j").and_then(|x| x.as_i64()) {
        j
    } else if let Some(t) = v.get("t").and_then(|x| x.as_i64()) {
        t / 1000
    } else if v.get("ts").is_some() || v.get("ids").is_some() || v.get("tasks").is_some() {
        -1
    } else {
        0
    }
}

fn ident(e: &Event) -> String {
    // (the projection only: the time stamp does not survive the round trip through the file bit by bit)
    event_json(&e.payload).to_string()
}

/// the records of a journal file as indices into the script (greedy, in order); -1 = a record that is not in the script
/// verbatim (re-written by a prune). -> (ids, torn tail present)
fn read_ids(path: &Path, script: &[Event]) -> (Vec<i64>, bool) {
    let mut ids = Vec::new();
    let mut torn = false;
    let Ok(mut reader) = JournalReader::open(path) else {
        return (ids, false);
    };
    let keys: Vec<String> = script.iter().map(ident).collect();
    let mut from = 0usize;
    for e in &mut reader {
        match e {
            Ok(e) => {
                let k = ident(&e);
                match keys[from..].iter().position(|x| *x == k) {
                    Some(p) => {
                        ids.push((from + p) as i64);
                        from += p + 1;
                    }
                    None => ids.push(-1),
                }
            }
            Err(_) => {
                torn = true;
                break;
            }
        }
    }
    // (a partially written last record ends the iteration without an error)
    torn = torn || reader.contains_partial_data();
    (ids, torn)
}

/// Drives the REAL journal thread (`start_event_streaming` / `streaming_process`) with the events of a real run and a seeded
/// mix of flush / replay / prune requests, snapshots of the file taken at arbitrary moments (= what a crash at that moment
/// leaves behind) and restarts from such a snapshot; every answer and every snapshot is logged for spec/JournalThreadTrace.tla.
pub fn thread_script(run: u64, dir: &Path, events: &[Event]) -> Vec<Value> {
    use hyperqueue::server::event::journal::{EventStreamMessage, start_event_streaming};
    // NOTE: this runs inside a task of the simulation's tokio runtime; waiting on tokio channels with a nested executor uses up
    // the cooperative budget of that task (after 128 operations every poll answers "pending" and defers the wake-up to a
    // scheduler that never runs) - hence `unconstrained`.
    let mut rng = crate::walk::Rng::new(run.wrapping_mul(0x9E37_79B9).wrapping_add(17));
    let path = dir.join("thread.journal");
    let snap = dir.join("thread.snapshot");
    let _ = std::fs::remove_file(&path);
    let mut steps: Vec<Value> = vec![json!({"a": "Reset", "run": run})];
    let Ok(writer) = JournalWriter::create_or_append(&path, None) else {
        return steps;
    };
    let (mut tx, mut end) = {
        let (tx, end) = start_event_streaming(writer, &path, std::time::Duration::from_secs(36_000));
        (tx, Box::pin(end) as std::pin::Pin<Box<dyn std::future::Future<Output = ()>>>)
    };
    let wait = |rx: tokio::sync::oneshot::Receiver<()>| -> bool { futures::executor::block_on(tokio::task::unconstrained(rx)).is_ok() };
    let mut jobs: Vec<u32> = Vec::new();
    let mut workers: Vec<u32> = Vec::new();
    // the first event that no answered request covers yet, and the length of the file at the last answer
    let mut pending_from = 0usize;
    let mut acked_len = std::fs::metadata(&path).map(|m| m.len()).unwrap_or(0);
    let n = events.len().min(60);
    for (i, e) in events[..n].iter().enumerate() {
        let j = job_of(e);
        if j > 0 && !jobs.contains(&(j as u32)) {
            jobs.push(j as u32);
        }
        if let Some(w) = event_json(&e.payload).get("w").and_then(|x| x.as_u64()) {
            if !workers.contains(&(w as u32)) {
                workers.push(w as u32);
            }
        }
        if tx.send(EventStreamMessage::Event(e.clone())).is_err() {
            steps.push(json!({"a": "ThreadDied", "at": i}));
            return steps;
        }
        steps.push(json!({"a": "E", "id": i, "job": j}));
        if std::env::var("HQV_DEBUG").is_ok() {
            eprintln!("thread_script: {}", steps.iter().rev().take(3).map(|s| s.to_string()).collect::<Vec<_>>().join(" <- "));
        }
        match rng.below(14) {
            0 | 1 => {
                let (cb, rx) = tokio::sync::oneshot::channel();
                let _ = tx.send(EventStreamMessage::FlushJournal(cb));
                let ok = wait(rx);
                pending_from = i + 1;
                acked_len = std::fs::metadata(&path).map(|m| m.len()).unwrap_or(0);
                let (ids, torn) = read_ids(&path, events);
                steps.push(json!({"a": "F", "ok": ok, "file": ids, "torn": torn}));
            }
            2 => {
                let (rtx, mut rrx) = tokio::sync::mpsc::unbounded_channel();
                let _ = tx.send(EventStreamMessage::ReplayJournal(rtx));
                let mut got: Vec<Event> = Vec::new();
                while let Some(ev) = futures::executor::block_on(tokio::task::unconstrained(rrx.recv())) {
                    got.push(ev);
                }
                let keys: Vec<String> = events.iter().map(ident).collect();
                let mut from = 0usize;
                let mut ids: Vec<i64> = Vec::new();
                for g in &got {
                    let k = ident(g);
                    match keys[from..].iter().position(|x| *x == k) {
                        Some(p) => {
                            ids.push((from + p) as i64);
                            from += p + 1;
                        }
                        None => ids.push(-1),
                    }
                }
                pending_from = i + 1;
                acked_len = std::fs::metadata(&path).map(|m| m.len()).unwrap_or(0);
                steps.push(json!({"a": "R", "reply": ids}));
            }
            3 => {
                // live = every job that still has records to come (a prune never declares such a job dead) + some of the others
                let future: Vec<i64> = events[i + 1..n].iter().map(job_of).collect();
                let live: Vec<u32> = if future.iter().any(|j| *j < 0) {
                    jobs.clone()
                } else {
                    jobs.iter().copied().filter(|j| future.contains(&(*j as i64)) || rng.below(2) == 0).collect()
                };
                let lj: Set<JobId> = live.iter().map(|j| JobId::new(*j)).collect();
                let lw: Set<WorkerId> = workers.iter().map(|w| WorkerId::new(*w)).collect();
                let (cb, rx) = tokio::sync::oneshot::channel();
                let _ = tx.send(EventStreamMessage::PruneJournal { callback: cb, live_jobs: lj, live_workers: lw });
                let ok = wait(rx);
                pending_from = i + 1;
                acked_len = std::fs::metadata(&path).map(|m| m.len()).unwrap_or(0);
                let (ids, torn) = read_ids(&path, events);
                steps.push(json!({"a": "P", "ok": ok, "live": live, "file": ids, "torn": torn}));
            }
            4 | 5 => {
                // what a crash at this very moment would leave behind
                let _ = std::fs::copy(&path, &snap);
                let restart = rng.below(2) == 0;
                if restart && rng.below(2) == 0 && pending_from <= i {
                    // the buffered writer was in the middle of writing through what it holds: some bytes of the records that are
                    // not acknowledged yet reached the file, the last record possibly torn (only if nothing of them is there yet)
                    let len = std::fs::metadata(&snap).map(|m| m.len()).unwrap_or(0);
                    if len == acked_len {
                        let tmpj = dir.join("thread.pending");
                        let sizes = write_journal(&tmpj, &events[pending_from..=i]);
                        if let Ok(bytes) = std::fs::read(&tmpj) {
                            let body = &bytes[sizes[0] as usize..];
                            if !body.is_empty() {
                                let x = 1 + rng.below(body.len());
                                if let Ok(mut f) = std::fs::OpenOptions::new().append(true).open(&snap) {
                                    let _ = f.write_all(&body[..x]);
                                }
                            }
                        }
                    }
                }
                let (ids, torn) = read_ids(&snap, events);
                steps.push(json!({"a": "Snap", "file": ids, "torn": torn}));
                if restart {
                    // ... and the server is started again with it: the old thread is gone, the torn tail is cut on open
                    drop(tx);
                    futures::executor::block_on(tokio::task::unconstrained(end));
                    let _ = std::fs::copy(&snap, &path);
                    if rng.below(2) == 0 {
                        // the crash hit in the middle of a prune: a complete or half-written `<journal>.tmp` is left behind
                        let mut tmp_path: std::ffi::OsString = path.clone().into();
                        tmp_path.push(".tmp");
                        let _ = std::fs::copy(&snap, std::path::PathBuf::from(&tmp_path));
                        if rng.below(2) == 0 {
                            if let Ok(f) = std::fs::OpenOptions::new().write(true).open(std::path::PathBuf::from(&tmp_path)) {
                                let len = f.metadata().map(|m| m.len()).unwrap_or(0);
                                let _ = f.set_len(len - len / 3);
                            }
                        }
                    }
                    // as start_server does: the restorer reads the journal and tells where a torn tail begins
                    let r = restore_file(&path);
                    let trunc = if r["ok"].as_bool() == Some(true) {
                        r["trunc"].as_i64().filter(|t| *t >= 0).map(|t| t as u64)
                    } else {
                        // the script goes on with the events of the original run also after a restart that lost some of them, so
                        // the CONTENT may not restore (e.g. a task event whose submit was lost); whether journals the server
                        // really writes restore is what the cut checks decide. Here only the place of the torn tail matters,
                        // found the way the restorer finds it: the reader's position when it meets partial data.
                        match JournalReader::open(&path) {
                            Ok(mut reader) => {
                                for _ in &mut reader {}
                                if reader.contains_partial_data() { Some(reader.position()) } else { None }
                            }
                            Err(_) => None,
                        }
                    };
                    let Ok(writer) = JournalWriter::create_or_append(&path, trunc) else {
                        steps.push(json!({"a": "Restart", "ok": false, "file": [], "torn": false}));
                        return steps;
                    };
                    let (t2, e2) = start_event_streaming(writer, &path, std::time::Duration::from_secs(36_000));
                    tx = t2;
                    end = Box::pin(e2);
                    pending_from = i + 1;
                    acked_len = std::fs::metadata(&path).map(|m| m.len()).unwrap_or(0);
                    let (ids, torn) = read_ids(&path, events);
                    steps.push(json!({"a": "Restart", "ok": true, "file": ids, "torn": torn}));
                }
            }
            _ => {}
        }
    }
    drop(tx);
    futures::executor::block_on(tokio::task::unconstrained(end));
    let (ids, torn) = read_ids(&path, events);
    steps.push(json!({"a": "End", "file": ids, "torn": torn}));
    steps
}

fn records(events: &[Event]) -> Vec<Value> {
    events.iter().map(|e| event_json(&e.payload)).collect()
}

/// Everything the journal checks need from one finished run.
pub fn analyse_run(run: u64, c: &Cluster, dir: &Path, torn_offsets: usize, max_cuts: usize) -> Value {
    let journal = &c.journal;
    let path: PathBuf = dir.join("j.journal");
    let n = journal.len();
    // --- restore at record boundaries
    let mut cuts = Vec::new();
    let ks: Vec<usize> = if n + 1 <= max_cuts {
        (0..=n).collect()
    } else {
        let mut v: Vec<usize> = (0..max_cuts).map(|i| i * n / (max_cuts - 1)).collect();
        v.dedup();
        v
    };
    let mut sizes = Vec::new();
    for k in &ks {
        sizes = write_journal(&path, &journal[..*k]);
        let mut r = restore_file(&path);
        r["k"] = json!(k);
        cuts.push(r);
    }
    let _ = &sizes;
    // --- torn tail inside the last record(s)
    let mut torn = Vec::new();
    if n >= 1 {
        let sizes = write_journal(&path, &journal[..n]);
        for k in [n, (n + 1) / 2] {
            if k == 0 {
                continue;
            }
            let lo = sizes[k - 1];
            let hi = sizes[k];
            let prev = {
                write_journal(&path, &journal[..k - 1]);
                restore_file(&path)
            };
            let span = hi - lo;
            let mut offs: Vec<u64> = if span as usize <= torn_offsets + 1 {
                (lo + 1..hi).collect()
            } else {
                (1..=torn_offsets as u64).map(|i| lo + i * span / (torn_offsets as u64 + 1)).collect()
            };
            offs.push(lo + 1);
            offs.push(hi - 1);
            offs.sort_unstable();
            offs.dedup();
            for off in offs {
                if off <= lo || off >= hi {
                    continue;
                }
                write_journal(&path, &journal[..k]);
                let f = std::fs::OpenOptions::new().write(true).open(&path).unwrap();
                f.set_len(off).unwrap();
                drop(f);
                let r = restore_file(&path);
                let same = view(&r) == view(&prev);
                let trunc_ok = r["trunc"].as_i64() == Some(lo as i64);
                // the restarted writer truncates and appends; the result must be a readable journal
                let mut append_ok = false;
                if let Some(t) = r["trunc"].as_i64().filter(|t| *t >= 0) {
                    if let Ok(mut w) = JournalWriter::create_or_append(&path, Some(t as u64)) {
                        let ok1 = w.store(journal[k - 1].clone()).is_ok();
                        let ok2 = w.finish().is_ok();
                        append_ok = ok1 && ok2 && read_journal(&path).map(|v| v.len() == k).unwrap_or(false);
                    }
                }
                torn.push(json!({"k": k, "off": off, "lo": lo, "hi": hi, "ok": r["ok"], "pan": r["pan"], "err": r["err"],
                                 "same_as_prev": same, "trunc_ok": trunc_ok, "append_ok": append_ok}));
            }
        }
    }
    // --- prunes that happened during the run + one at the end
    let mut prunes = Vec::new();
    let mut all: Vec<PruneRecord> = Vec::new();
    for p in c.prunes.iter() {
        all.push(PruneRecord {
            before: p.before.clone(),
            after: p.after.clone(),
            live_jobs: p.live_jobs.clone(),
            live_workers: p.live_workers.clone(),
        });
    }
    {
        let (lj, lw) = c.live_sets();
        if let Ok(after) = prune_events(dir, journal, &lj, &lw) {
            all.push(PruneRecord {
                before: journal.clone(),
                after,
                live_jobs: lj.iter().map(|j| j.as_num()).collect(),
                live_workers: lw.iter().map(|w| w.as_num()).collect(),
            });
        } else {
            prunes.push(json!({"prune_failed": true}));
        }
        // ... and through the real journal thread, with the last records not yet flushed when the prune is requested
        for unflushed in [0usize, 1 + (run as usize % 3)] {
            let k = journal.len().saturating_sub(unflushed);
            match prune_via_stream(dir, journal, k, &lj, &lw) {
                Ok(after) => all.push(PruneRecord {
                    before: journal.clone(),
                    after,
                    live_jobs: lj.iter().map(|j| j.as_num()).collect(),
                    live_workers: lw.iter().map(|w| w.as_num()).collect(),
                }),
                Err(_) => prunes.push(json!({"prune_failed": true})),
            }
        }
    }
    for p in all {
        write_journal(&path, &p.before);
        let before = restore_file(&path);
        write_journal(&path, &p.after);
        let after = restore_file(&path);
        // prune again: must be a fixpoint; append: must stay readable
        let lj: Set<JobId> = p.live_jobs.iter().map(|j| JobId::new(*j)).collect();
        let lw: Set<WorkerId> = p.live_workers.iter().map(|w| WorkerId::new(*w)).collect();
        let again = prune_events(dir, &p.after, &lj, &lw);
        let reprune_same = again.as_ref().map(|a| records(a) == records(&p.after)).unwrap_or(false);
        let mut append_ok = false;
        if let Some(last) = p.before.last() {
            write_journal(&path, &p.after);
            if let Ok(mut w) = JournalWriter::create_or_append(&path, None) {
                let ok1 = w.store(last.clone()).is_ok();
                let ok2 = w.finish().is_ok();
                append_ok = ok1 && ok2 && read_journal(&path).map(|v| v.len() == p.after.len() + 1).unwrap_or(false);
            }
        } else {
            append_ok = true;
        }
        prunes.push(json!({"prune_failed": false, "live_jobs": p.live_jobs, "live_workers": p.live_workers,
                           "before_journal": records(&p.before), "after_journal": records(&p.after),
                           "before": before, "after": after, "reprune_same": reprune_same, "append_ok": append_ok}));
    }
    let thread = thread_script(run, dir, journal);
    json!({"run": run, "profile": c.profile.name, "journal": records(journal), "n": n, "cuts": cuts, "torn": torn, "prunes": prunes, "thread": thread})
}

pub fn main(args: &[String]) -> i32 {
    panics::install();
    let arg = |name: &str| -> Option<&str> {
        args.iter().position(|a| a == name).and_then(|i| args.get(i + 1)).map(|s| s.as_str())
    };
    let out_path = arg("--out").unwrap_or("/dev/stdout");
    let mut out = std::io::BufWriter::new(std::fs::File::create(out_path).unwrap());
    let names: Vec<String> = arg("--profile").unwrap_or("jmixed").split(',').map(|s| s.to_string()).collect();
    let seed: u64 = arg("--seed").unwrap_or("0").parse().unwrap();
    let runs: u64 = arg("--runs").unwrap_or("10").parse().unwrap();
    let steps: usize = arg("--steps").unwrap_or("60").parse().unwrap();
    let first_run: u64 = arg("--first-run").unwrap_or("0").parse().unwrap();
    let torn: usize = arg("--torn").unwrap_or("8").parse().unwrap();
    let max_cuts: usize = arg("--max-cuts").unwrap_or("80").parse().unwrap();
    let choices_dir = arg("--choices-dir");
    let dir = tempfile::TempDir::with_prefix("hqvj").unwrap();
    if let Some(file) = arg("--replay") {
        let v: Value = serde_json::from_str(&std::fs::read_to_string(file).unwrap()).unwrap();
        let profile: crate::cluster::Profile = serde_json::from_value(v["profile"].clone()).unwrap();
        let choices: Vec<crate::cluster::Choice> = serde_json::from_value(v["choices"].clone()).unwrap();
        let mut taken = Vec::new();
        let mut sink = std::io::sink();
        let mut result = Value::Null;
        let dpath = dir.path().to_path_buf();
        {
            let mut post = |c: &Cluster| {
                result = analyse_run(0, c, &dpath, torn, max_cuts);
            };
            crate::walk::run_one_with(&profile, 0, crate::walk::Source::Replay { choices: &choices }, &mut sink, &mut taken, Some(&mut post));
        }
        if !result.is_null() {
            writeln!(out, "{}", result).unwrap();
        }
        out.flush().unwrap();
        return 0;
    }
    let mut total_cuts = 0usize;
    let mut total_records = 0usize;
    for r in 0..runs {
        let run = first_run + r;
        let name = &names[(run as usize) % names.len()];
        let profile = crate::profiles::get(name).unwrap_or_else(|| panic!("unknown profile {name}"));
        let mut taken = Vec::new();
        let mut sink = std::io::sink();
        let mut result = Value::Null;
        let dpath = dir.path().to_path_buf();
        {
            let mut post = |c: &Cluster| {
                result = analyse_run(run, c, &dpath, torn, max_cuts);
            };
            crate::walk::run_one_with(
                &profile,
                run,
                crate::walk::Source::Random { seed: seed.wrapping_mul(1_000_003).wrapping_add(run), steps },
                &mut sink,
                &mut taken,
                Some(&mut post),
            );
        }
        if result.is_null() {
            continue;
        }
        total_cuts += result["cuts"].as_array().map(|a| a.len()).unwrap_or(0);
        total_records += result["n"].as_u64().unwrap_or(0) as usize;
        writeln!(out, "{}", result).unwrap();
        if let Some(d) = choices_dir {
            std::fs::write(format!("{d}/run{run}.json"), serde_json::to_string(&json!({"profile": profile, "choices": taken})).unwrap()).unwrap();
        }
    }
    out.flush().unwrap();
    eprintln!("{}", json!({"runs": runs, "cuts": total_cuts, "records": total_records}));
    0
}
