//! Journal harness: the journals produced by real executions of the cluster simulation are cut at
//! every record boundary (and inside the last record), restored with the real `StateRestorer`
//! into a fresh server, pruned with the real `prune_journal`, and the outcomes are logged for
//! validation against spec/Journal.tla.

use std::io::Write;
use std::path::{Path, PathBuf};

use serde_json::{Value, json};

use hyperqueue::server::event::Event;
use hyperqueue::server::event::journal::{JournalReader, JournalWriter};
use hyperqueue::server::state::StateRef;
use hyperqueue::transfer::messages::ServerInfo;
use tako::server::SchedulerConfig;
use tako::verif::SimServer;
use tako::{JobId, Set, WorkerId};

use crate::cluster::{Cluster, event_json, state_name_pub};
use crate::panics;

pub fn write_journal(path: &Path, events: &[Event]) -> Vec<u64> {
    let _ = std::fs::remove_file(path);
    let mut sizes = Vec::with_capacity(events.len() + 1);
    let mut w = JournalWriter::create_or_append(path, None).unwrap();
    w.flush().unwrap();
    sizes.push(std::fs::metadata(path).unwrap().len());
    for e in events {
        w.store(e.clone()).unwrap();
        w.flush().unwrap();
        sizes.push(std::fs::metadata(path).unwrap().len());
    }
    w.finish().unwrap();
    sizes
}

pub fn read_journal(path: &Path) -> Result<Vec<Event>, String> {
    let mut reader = JournalReader::open(path).map_err(|e| e.to_string())?;
    let mut out = Vec::new();
    for e in &mut reader {
        out.push(e.map_err(|e| e.to_string())?);
    }
    Ok(out)
}

fn fresh_state() -> (SimServer, StateRef) {
    let server = SimServer::new(
        "fresh".to_string(),
        WorkerId::new(0),
        SchedulerConfig {
            proactive_filling_reserve: 0,
            proactive_filling_max: 1,
            mip_time_limit: std::time::Duration::from_secs(5),
        },
    );
    let state_ref = StateRef::new(ServerInfo {
        server_uid: "fresh".into(),
        client_host: "h".into(),
        worker_host: "h".into(),
        client_port: 0,
        worker_port: 0,
        version: "v".into(),
        pid: 0,
        start_date: chrono::Utc::now(),
        journal_path: None,
    });
    (server, state_ref)
}

/// Restores the journal file with the real restorer into a fresh state + core and reports what came out.
pub fn restore_file(path: &Path) -> Value {
    let _ = panics::take();
    let r = std::panic::catch_unwind(std::panic::AssertUnwindSafe(|| {
        let (server, state_ref) = fresh_state();
        let events = hyperqueue::server::event::streamer::EventStreamer::new(None);
        let senders = hyperqueue::server::verif::make_senders(server.server_ref(), events);
        hyperqueue::server::verif::install_event_processor(&server.server_ref(), state_ref.clone(), senders);
        let outcome = {
            let mut st = state_ref.get_mut();
            hyperqueue::server::verif::restore(path, &mut st, &server.server_ref())
        };
        match outcome {
            Err(e) => json!({"ok": false, "err": e.to_string(), "pan": 0, "ploc": "", "jc": 0, "wc": 0, "qc": 0, "uid": "", "trunc": -1,
                             "jobs": [], "core": [], "queues": [], "add_err": ""}),
            Ok(o) => {
                let mut add_err = String::new();
                // instance ids / crash counters as handed to the core
                let mut adjust: std::collections::BTreeMap<u64, (u32, u32)> = Default::default();
                for ts in &o.task_submits {
                    for (t, (inst, crash)) in ts.adjust_instance_id_and_crash_counters.iter() {
                        adjust.insert(tako::verif::task_id_num(*t), (inst.as_num(), *crash));
                    }
                }
                let _ = &adjust;
                for ts in o.task_submits {
                    if let Err(e) = server.server_ref().add_new_tasks(ts) {
                        add_err = e.to_string();
                    }
                }
                let snap = server.snapshot();
                let core: Vec<Value> = snap["tasks"]
                    .as_array()
                    .unwrap()
                    .iter()
                    .map(|t| json!({"id": t["id"], "nd": t["nd"], "deps": t["deps"], "inst": t["inst"], "crash": t["crash"], "st": t["st"]}))
                    .collect();
                let st = state_ref.get();
                let mut jobs: Vec<Value> = st
                    .jobs()
                    .map(|j| {
                        let mut tasks: Vec<Value> = j
                            .tasks
                            .iter()
                            .map(|(t, info)| json!({"t": j.job_id.as_num() as u64 * 1000 + t.as_num() as u64, "s": state_name_pub(&info.state)}))
                            .collect();
                        tasks.sort_by_key(|t| t["t"].as_u64());
                        json!({"id": j.job_id.as_num(), "open": j.is_open, "n": j.n_tasks(),
                               "cnt": {"running": j.counters.n_running_tasks, "finished": j.counters.n_finished_tasks,
                                       "failed": j.counters.n_failed_tasks, "canceled": j.counters.n_canceled_tasks,
                                       "aborted": j.counters.n_aborted_tasks},
                               "tasks": tasks})
                    })
                    .collect();
                jobs.sort_by_key(|j| j["id"].as_u64());
                let mut queues: Vec<u32> = o.queues.iter().map(|q| q.0).collect();
                queues.sort_unstable();
                // the id the next queue really gets once the surviving queues have been re-created (not just the restorer's counter)
                let qc_live = crate::autoalloc::live_next_queue_id(server.server_ref(), o.queue_id_counter, &queues);
                json!({"ok": true, "err": "", "pan": 0, "ploc": "", "jc": o.job_id_counter, "wc": o.worker_id_counter.as_num(),
                       "qc": qc_live.min(o.queue_id_counter), "qc_restorer": o.queue_id_counter, "uid": o.server_uid, "trunc": o.truncate_size.map(|x| x as i64).unwrap_or(-1),
                       "jobs": jobs, "core": core, "queues": queues, "add_err": add_err})
            }
        }
    }));
    match r {
        Ok(v) => v,
        Err(_) => {
            let (loc, msg) = panics::take().unwrap_or(("?".into(), "?".into()));
            json!({"ok": false, "err": msg, "pan": 1, "ploc": loc, "jc": 0, "wc": 0, "qc": 0, "uid": "", "trunc": -1,
                   "jobs": [], "core": [], "queues": [], "add_err": ""})
        }
    }
}

fn view(v: &Value) -> Value {
    json!([v["ok"], v["jobs"], v["core"], v["queues"], v["jc"], v["wc"], v["qc"], v["uid"]])
}

pub struct PruneRecord {
    pub before: Vec<Event>,
    pub after: Vec<Event>,
    pub live_jobs: Vec<u32>,
    pub live_workers: Vec<u32>,
}

/// Real prune of an in-memory journal (through files).
pub fn prune_events(dir: &Path, events: &[Event], live_jobs: &Set<JobId>, live_workers: &Set<WorkerId>) -> Result<Vec<Event>, String> {
    let input = dir.join("prune-in.journal");
    let output = dir.join("prune-out.journal");
    write_journal(&input, events);
    let _ = std::fs::remove_file(&output);
    hyperqueue::server::verif::prune(&input, &output, live_jobs, live_workers).map_err(|e| e.to_string())?;
    read_journal(&output)
}

/// The same prune through the REAL journal thread (`start_event_streaming` / `streaming_process`): the first `flushed` records are
/// written and flushed, the rest is still buffered by the writer when the prune request arrives - as it happens on a live server.
pub fn prune_via_stream(dir: &Path, events: &[Event], flushed: usize, live_jobs: &Set<JobId>, live_workers: &Set<WorkerId>) -> Result<Vec<Event>, String> {
    use hyperqueue::server::event::journal::{EventStreamMessage, start_event_streaming};
    let path = dir.join("stream.journal");
    let _ = std::fs::remove_file(&path);
    let writer = JournalWriter::create_or_append(&path, None).map_err(|e| e.to_string())?;
    let (tx, end) = start_event_streaming(writer, &path, std::time::Duration::from_secs(36_000));
    let wait = |rx: tokio::sync::oneshot::Receiver<()>| -> Result<(), String> { futures::executor::block_on(rx).map_err(|_| "journal thread ended".to_string()) };
    let mut run = || -> Result<(), String> {
        for e in &events[..flushed.min(events.len())] {
            tx.send(EventStreamMessage::Event(e.clone())).map_err(|_| "journal thread ended".to_string())?;
        }
        let (cb, rx) = tokio::sync::oneshot::channel();
        tx.send(EventStreamMessage::FlushJournal(cb)).map_err(|_| "journal thread ended".to_string())?;
        wait(rx)?;
        for e in &events[flushed.min(events.len())..] {
            tx.send(EventStreamMessage::Event(e.clone())).map_err(|_| "journal thread ended".to_string())?;
        }
        let (cb, rx) = tokio::sync::oneshot::channel();
        tx.send(EventStreamMessage::PruneJournal { callback: cb, live_jobs: live_jobs.clone(), live_workers: live_workers.clone() })
            .map_err(|_| "journal thread ended".to_string())?;
        wait(rx)
    };
    let r = run();
    drop(tx);
    futures::executor::block_on(end);
    r?;
    read_journal(&path)
}

fn records(events: &[Event]) -> Vec<Value> {
    events.iter().map(|e| event_json(&e.payload)).collect()
}

/// Everything the journal checks need from one finished run.
pub fn analyse_run(run: u64, c: &Cluster, dir: &Path, torn_offsets: usize, max_cuts: usize) -> Value {
    let journal = &c.journal;
    let path: PathBuf = dir.join("j.journal");
    let n = journal.len();
    // --- restore at record boundaries
    let mut cuts = Vec::new();
    let ks: Vec<usize> = if n + 1 <= max_cuts {
        (0..=n).collect()
    } else {
        let mut v: Vec<usize> = (0..max_cuts).map(|i| i * n / (max_cuts - 1)).collect();
        v.dedup();
        v
    };
    let mut sizes = Vec::new();
    for k in &ks {
        sizes = write_journal(&path, &journal[..*k]);
        let mut r = restore_file(&path);
        r["k"] = json!(k);
        cuts.push(r);
    }
    let _ = &sizes;
    // --- torn tail inside the last record(s)
    let mut torn = Vec::new();
    if n >= 1 {
        let sizes = write_journal(&path, &journal[..n]);
        for k in [n, (n + 1) / 2] {
            if k == 0 {
                continue;
            }
            let lo = sizes[k - 1];
            let hi = sizes[k];
            let prev = {
                write_journal(&path, &journal[..k - 1]);
                restore_file(&path)
            };
            let span = hi - lo;
            let mut offs: Vec<u64> = if span as usize <= torn_offsets + 1 {
                (lo + 1..hi).collect()
            } else {
                (1..=torn_offsets as u64).map(|i| lo + i * span / (torn_offsets as u64 + 1)).collect()
            };
            offs.push(lo + 1);
            offs.push(hi - 1);
            offs.sort_unstable();
            offs.dedup();
            for off in offs {
                if off <= lo || off >= hi {
                    continue;
                }
                write_journal(&path, &journal[..k]);
                let f = std::fs::OpenOptions::new().write(true).open(&path).unwrap();
                f.set_len(off).unwrap();
                drop(f);
                let r = restore_file(&path);
                let same = view(&r) == view(&prev);
                let trunc_ok = r["trunc"].as_i64() == Some(lo as i64);
                // the restarted writer truncates and appends; the result must be a readable journal
                let mut append_ok = false;
                if let Some(t) = r["trunc"].as_i64().filter(|t| *t >= 0) {
                    if let Ok(mut w) = JournalWriter::create_or_append(&path, Some(t as u64)) {
                        let ok1 = w.store(journal[k - 1].clone()).is_ok();
                        let ok2 = w.finish().is_ok();
                        append_ok = ok1 && ok2 && read_journal(&path).map(|v| v.len() == k).unwrap_or(false);
                    }
                }
                torn.push(json!({"k": k, "off": off, "lo": lo, "hi": hi, "ok": r["ok"], "pan": r["pan"], "err": r["err"],
                                 "same_as_prev": same, "trunc_ok": trunc_ok, "append_ok": append_ok}));
            }
        }
    }
    // --- prunes that happened during the run + one at the end
    let mut prunes = Vec::new();
    let mut all: Vec<PruneRecord> = Vec::new();
    for p in c.prunes.iter() {
        all.push(PruneRecord {
            before: p.before.clone(),
            after: p.after.clone(),
            live_jobs: p.live_jobs.clone(),
            live_workers: p.live_workers.clone(),
        });
    }
    {
        let (lj, lw) = c.live_sets();
        if let Ok(after) = prune_events(dir, journal, &lj, &lw) {
            all.push(PruneRecord {
                before: journal.clone(),
                after,
                live_jobs: lj.iter().map(|j| j.as_num()).collect(),
                live_workers: lw.iter().map(|w| w.as_num()).collect(),
            });
        } else {
            prunes.push(json!({"prune_failed": true}));
        }
        // ... and through the real journal thread, with the last records not yet flushed when the prune is requested
        for unflushed in [0usize, 1 + (run as usize % 3)] {
            let k = journal.len().saturating_sub(unflushed);
            match prune_via_stream(dir, journal, k, &lj, &lw) {
                Ok(after) => all.push(PruneRecord {
                    before: journal.clone(),
                    after,
                    live_jobs: lj.iter().map(|j| j.as_num()).collect(),
                    live_workers: lw.iter().map(|w| w.as_num()).collect(),
                }),
                Err(_) => prunes.push(json!({"prune_failed": true})),
            }
        }
    }
    for p in all {
        write_journal(&path, &p.before);
        let before = restore_file(&path);
        write_journal(&path, &p.after);
        let after = restore_file(&path);
        // prune again: must be a fixpoint; append: must stay readable
        let lj: Set<JobId> = p.live_jobs.iter().map(|j| JobId::new(*j)).collect();
        let lw: Set<WorkerId> = p.live_workers.iter().map(|w| WorkerId::new(*w)).collect();
        let again = prune_events(dir, &p.after, &lj, &lw);
        let reprune_same = again.as_ref().map(|a| records(a) == records(&p.after)).unwrap_or(false);
        let mut append_ok = false;
        if let Some(last) = p.before.last() {
            write_journal(&path, &p.after);
            if let Ok(mut w) = JournalWriter::create_or_append(&path, None) {
                let ok1 = w.store(last.clone()).is_ok();
                let ok2 = w.finish().is_ok();
                append_ok = ok1 && ok2 && read_journal(&path).map(|v| v.len() == p.after.len() + 1).unwrap_or(false);
            }
        } else {
            append_ok = true;
        }
        prunes.push(json!({"prune_failed": false, "live_jobs": p.live_jobs, "live_workers": p.live_workers,
                           "before_journal": records(&p.before), "after_journal": records(&p.after),
                           "before": before, "after": after, "reprune_same": reprune_same, "append_ok": append_ok}));
    }
    json!({"run": run, "profile": c.profile.name, "journal": records(journal), "n": n, "cuts": cuts, "torn": torn, "prunes": prunes})
}

pub fn main(args: &[String]) -> i32 {
    panics::install();
    let arg = |name: &str| -> Option<&str> {
        args.iter().position(|a| a == name).and_then(|i| args.get(i + 1)).map(|s| s.as_str())
    };
    let out_path = arg("--out").unwrap_or("/dev/stdout");
    let mut out = std::io::BufWriter::new(std::fs::File::create(out_path).unwrap());
    let names: Vec<String> = arg("--profile").unwrap_or("jmixed").split(',').map(|s| s.to_string()).collect();
    let seed: u64 = arg("--seed").unwrap_or("0").parse().unwrap();
    let runs: u64 = arg("--runs").unwrap_or("10").parse().unwrap();
    let steps: usize = arg("--steps").unwrap_or("60").parse().unwrap();
    let first_run: u64 = arg("--first-run").unwrap_or("0").parse().unwrap();
    let torn: usize = arg("--torn").unwrap_or("8").parse().unwrap();
    let max_cuts: usize = arg("--max-cuts").unwrap_or("80").parse().unwrap();
    let choices_dir = arg("--choices-dir");
    let dir = tempfile::TempDir::with_prefix("hqvj").unwrap();
    if let Some(file) = arg("--replay") {
        let v: Value = serde_json::from_str(&std::fs::read_to_string(file).unwrap()).unwrap();
        let profile: crate::cluster::Profile = serde_json::from_value(v["profile"].clone()).unwrap();
        let choices: Vec<crate::cluster::Choice> = serde_json::from_value(v["choices"].clone()).unwrap();
        let mut taken = Vec::new();
        let mut sink = std::io::sink();
        let mut result = Value::Null;
        let dpath = dir.path().to_path_buf();
        {
            let mut post = |c: &Cluster| {
                result = analyse_run(0, c, &dpath, torn, max_cuts);
            };
            crate::walk::run_one_with(&profile, 0, crate::walk::Source::Replay { choices: &choices }, &mut sink, &mut taken, Some(&mut post));
        }
        if !result.is_null() {
            writeln!(out, "{}", result).unwrap();
        }
        out.flush().unwrap();
        return 0;
    }
    let mut total_cuts = 0usize;
    let mut total_records = 0usize;
    for r in 0..runs {
        let run = first_run + r;
        let name = &names[(run as usize) % names.len()];
        let profile = crate::profiles::get(name).unwrap_or_else(|| panic!("unknown profile {name}"));
        let mut taken = Vec::new();
        let mut sink = std::io::sink();
        let mut result = Value::Null;
        let dpath = dir.path().to_path_buf();
        {
            let mut post = |c: &Cluster| {
                result = analyse_run(run, c, &dpath, torn, max_cuts);
            };
            crate::walk::run_one_with(
                &profile,
                run,
                crate::walk::Source::Random { seed: seed.wrapping_mul(1_000_003).wrapping_add(run), steps },
                &mut sink,
                &mut taken,
                Some(&mut post),
            );
        }
        if result.is_null() {
            continue;
        }
        total_cuts += result["cuts"].as_array().map(|a| a.len()).unwrap_or(0);
        total_records += result["n"].as_u64().unwrap_or(0) as usize;
        writeln!(out, "{}", result).unwrap();
        if let Some(d) = choices_dir {
            std::fs::write(format!("{d}/run{run}.json"), serde_json::to_string(&json!({"profile": profile, "choices": taken})).unwrap()).unwrap();
        }
    }
    out.flush().unwrap();
    eprintln!("{}", json!({"runs": runs, "cuts": total_cuts, "records": total_records}));
    0
}
