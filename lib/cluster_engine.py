"""Engine for the cluster properties C01-C03, C05-C09, C13, C14.

 1. (re)build the harness against the current /repo tree (hooks enabled),
 2. model checking of the design (HQModel, exhaustive small configurations) when available,
 3. exploration of the REAL code by the deterministic cluster simulation (seeded walks + drains, replay of
    behaviours produced by TLC from the model),
 4. trace validation: TLC evaluates every property formula of spec/HQ.tla on every state of every recorded
    execution (spec/HQTrace.tla),
 5. violations of the requested property are classified (signatures.py) and matched against known findings.
"""
import concurrent.futures as cf
import json
import os
import shutil
import subprocess
import sys

import common
import hq_model
import signatures

# profiles of the harness that matter for each property
PROFILES = {
    "C01": ["mixed", "time", "maxfails", "cancel", "loss", "happy", "timeretract", "bigbody"],
    "C02": ["mixed", "open", "variants", "mn", "retract", "loss", "timeretract", "retract2", "blocked"],
    "C03": ["mixed", "open", "maxfails", "happy", "cancel"],
    "C04": ["variants", "mixed", "cancel", "retract"],
    "C05": ["variants", "mn", "retract", "time", "mixed", "cancel", "variants2", "timeretract"],
    "C06": ["retract", "loss", "mixed", "variants", "orphan"],
    "C07": ["loss", "mn", "mixed", "maxfails"],
    "C08": ["cancel", "retract", "mixed", "open", "mn", "retract2"],
    "C09": ["mixed", "retract", "cancel", "loss", "maxfails", "open", "stream", "mn", "time", "variants", "timeretract", "retract2", "variants2", "bigbody", "waiters", "blocked", "orphan"],
    "C13": ["open", "stream", "maxfails", "mixed", "cancel", "waiters"],
    "C14": ["maxfails", "mixed"],
}

# behaviours simulated by TLC from the model and replayed on the real code: tier -> (behaviours per instance, depth)
SIM_BUDGET = {"quick": (0, 70), "thorough": (1500, 90)}   # quick: the committed corpus only

# invariants / step properties of the model that belong to each property (all are checked in every MC run)
def mc_formulas(pid):
    fs = [f for f in hq_model.INVARIANTS + hq_model.EAGER_ONLY + hq_model.STEP_PROPS if f.startswith(pid + "_")]
    if pid == "C09":
        fs.append("NoPanic")
    return fs


def sim_shard(args):
    """behaviours of the model replayed on the real code: the committed corpus (regress/model: behaviours that together cover
    every abstract step signature of the model several times) plus freshly simulated ones"""
    workdir, name, num, depth, seed = args
    behs = hq_model.corpus_behaviours(name) + (hq_model.behaviours(name, num, depth, seed, workdir) if num > 0 else [])
    # chunks of 150 behaviours so that the validation of the shards balances over the TLC processes
    return [hq_model.guided_shard(workdir, name, behs[k:k + 150], tag=f"sim{k // 150}") for k in range(0, len(behs), 150)]


BUDGET = {
    # tier: (runs per shard, shards per profile, steps)
    "quick": (40, 3, 60),
    "thorough": (60, 24, 90),
}


class Hang(Exception):
    """a step of the real code did not return within a minute of real time (the simulated clock is paused)"""
    def __init__(self, replay, where):
        super().__init__(where)
        self.replay = replay
        self.where = where


def gen_shard(args):
    workdir, profile, shard, runs, steps, seed = args
    out = os.path.join(workdir, f"{profile}-{shard}.ndjson")
    cdir = os.path.join(workdir, f"{profile}-{shard}.choices")
    os.makedirs(cdir, exist_ok=True)
    tmp = os.path.join(workdir, f"tmp-{profile}-{shard}")
    os.makedirs(tmp, exist_ok=True)
    env = dict(os.environ)
    env["TMPDIR"] = tmp
    p = subprocess.run(
        [common.HQV, "cluster", "walk", "--profile", profile, "--seed", str(seed * 1000 + shard), "--runs", str(runs),
         "--steps", str(steps), "--first-run", str(shard * runs), "--out", out, "--choices-dir", cdir],
        env=env, stdout=subprocess.PIPE, stderr=subprocess.PIPE, text=True, timeout=1800)
    shutil.rmtree(tmp, ignore_errors=True)
    if p.returncode == 3 and os.path.exists(out + ".hang"):
        raise Hang(json.load(open(out + ".hang")), f"{profile}/{shard}")
    if p.returncode != 0:
        raise common.ToolError(f"harness failed on {profile}/{shard}: {p.stderr[-2000:]}")
    stats = json.loads(p.stderr.strip().splitlines()[-1])
    return out, cdir, stats


def regress_shard(workdir):
    """Replays the kept choice sequences (/verif/regress: counterexamples of repaired defects, known findings,
    behaviours exported from the TLA+ model) into the current code."""
    d = os.path.join(common.VERIF, "regress")
    if not os.path.isdir(d) or not any(f.endswith(".json") for f in os.listdir(d)):
        return None
    out = os.path.join(workdir, "regress.ndjson")
    cdir = os.path.join(workdir, "regress.choices")
    os.makedirs(cdir, exist_ok=True)
    tmp = os.path.join(workdir, "tmp-regress")
    os.makedirs(tmp, exist_ok=True)
    env = dict(os.environ)
    env["TMPDIR"] = tmp
    p = subprocess.run([common.HQV, "cluster", "replaymany", "--dir", d, "--out", out, "--choices-dir", cdir], env=env,
                       stdout=subprocess.PIPE, stderr=subprocess.PIPE, text=True, timeout=1800)
    shutil.rmtree(tmp, ignore_errors=True)
    if p.returncode != 0:
        raise common.ToolError("regress replay failed: " + p.stderr[-2000:])
    return out, cdir, json.loads(p.stderr.strip().splitlines()[-1])


def validate_shard(args):
    """TLC on one recorded shard: every property formula of HQ.tla on every state (HQTrace) and, for the steps the model
    covers, the comparison of the real transition with the model's transition function (HQConform; diagnostic)."""
    workdir, trace = args
    out = common.tlc("HQConform.tla", "HQConform.cfg", workdir, env={"TRACE": trace}, workers=1, timeout=1800)
    verdict = common.tlc_printed(out, "VERDICT")
    viols = common.tlc_printed(out, "VIOL")
    ncomp = common.tlc_printed(out, "NCOMP")
    if not verdict or "Model checking completed. No error has been found." not in out:
        raise common.ToolError("trace validation did not complete on " + trace + ":\n" + out[-3000:])
    if verdict[-1]["diameter"] - 1 != verdict[-1]["lines"]:
        raise common.ToolError("trace not fully consumed: " + trace)
    states, gen = common.tlc_stats(out)
    CONF[trace] = ncomp[-1]["n"] if ncomp else 0
    return trace, viols[-1] if viols else [], states, gen


CONF = {}  # trace -> number of steps compared with the model


def load_run(trace, run):
    lines = []
    with open(trace) as f:
        for l in f:
            if f'"run":{run},' in l:
                d = json.loads(l)
                if d["run"] == run:
                    lines.append(d)
    lines.sort(key=lambda d: d["i"])
    return lines


def analyse(pid, shards, results):
    """-> (violations of pid, counts of violated formulas per property, sample lines)"""
    violations = []
    others = {}
    for (trace, cdir, _), (_, viols, _, _) in zip(shards, results):
        first = {}
        for v in viols:
            key = (v["p"], v["run"])
            if key not in first or v["i"] < first[key]["i"]:
                first[key] = v
        for (formula, run), v in sorted(first.items()):
            prop = formula.split("_")[0]
            if prop != pid:
                others[formula] = others.get(formula, 0) + 1
                continue
            lines = load_run(trace, run)
            idx = next((k for k, ln in enumerate(lines) if ln["i"] == v["i"]), len(lines) - 1)
            sig = signatures.classify(formula, lines, idx)
            choices_file = os.path.join(cdir, f"run{run}.json")
            replay = {}
            if os.path.exists(choices_file):
                replay = json.load(open(choices_file))
                replay["no_drain"] = True
            replay["first_violating_line"] = v["i"]
            violations.append({"formula": formula, "signature": sig, "replay": replay,
                               "detail": f"run {run} line {v['i']} action {v['a']} {v.get('loc', '')}".strip()})
    return violations, others


def run(pid, tier, seed):
    try:
        return run_inner(pid, tier, seed)
    except Hang as h:
        # "the server keeps serving afterwards" is part of C09; for the other properties the run cannot be judged
        if pid != "C09":
            raise common.ToolError(f"a step of the code under test does not return ({h.where}); see ./check C09")
        last = h.replay["choices"][-1] if h.replay.get("choices") else {}
        return {"level": "model_checking", "coverage": {"states": 0, "transitions": 0, "traces_validated_against_impl": 0, "samples": [h.replay["choices"][-10:]],
                                                         "explanation": "exploration stopped: a step of the real code never returned"},
                "violations": [{"formula": "C09_KeepsServing", "signature": f"C09_KeepsServing:step-does-not-return@{last.get('c')}",
                                "replay": h.replay, "detail": f"{h.where} run {h.replay.get('run')} step {h.replay.get('i')} choice {json.dumps(last)}"}],
                "assumptions": []}


def run_inner(pid, tier, seed):
    import time
    t0 = time.time()
    dbg = (lambda what: print(f"[{time.time() - t0:6.1f}s] {what}", file=sys.stderr)) if os.environ.get("VERIF_DEBUG") else (lambda what: None)
    common.build_harness()
    dbg("harness built")
    work = common.scratch()
    try:
        runs, nshards, steps = BUDGET[tier]
        jobs = []
        for profile in PROFILES[pid]:
            for s in range(nshards):
                jobs.append((work, profile, s, runs, steps + (s % 3) * 20, seed))
        nsim, dsim = SIM_BUDGET[tier]
        sim_jobs = [(work, name, nsim, dsim, seed * 100 + k) for k, name in enumerate(sorted(hq_model.INSTANCES))]
        with cf.ThreadPoolExecutor(max_workers=max(2, common.NCPU - 2)) as ex:
            sim_f = [ex.submit(sim_shard, j) for j in sim_jobs]
            shards = list(ex.map(gen_shard, jobs))
            sims = [sh for f in sim_f for sh in f.result()]
        dbg("walks + simulations + guided replays done")
        n_walk_runs = sum(s[2]["runs"] for s in shards)
        shards += sims
        # exhaustive model checking of the design (independent of /repo; cached by the hash of the specification)
        mc = hq_model.model_check(tier)
        bad = [(r["cfg"], r["violated"]) for r in mc if r["violated"]]
        if bad:
            raise common.ToolError(f"the model itself violates {bad}: the specification needs attention (not a verdict about the code)")
        # temporal liveness of the design (spec/HQLive.tla) for the two properties that speak about progress
        live = hq_model.liveness_check(tier)[0] if pid in ("C02", "C08") else None
        dbg("model checking done")
        reg = regress_shard(work)
        if reg:
            shards.append(reg)
        with cf.ThreadPoolExecutor(max_workers=max(2, common.NCPU // 2)) as ex:
            results = list(ex.map(validate_shard, [(work, s[0]) for s in shards]))
        dbg("trace validation done")
        violations, others = analyse(pid, shards, results)
        total_runs = sum(s[2]["runs"] for s in shards)
        total_lines = sum(s[2]["steps"] for s in shards)
        quiescent = sum(s[2]["quiescent"] for s in shards)
        panics = sum(s[2]["panics"] for s in shards)
        states = sum(r[2] for r in results)
        gen = sum(r[3] for r in results)
        # per-action coverage over the validated traces and one sample run
        actions = {}
        sample = []
        with open(shards[0][0]) as f:
            for l in f:
                d = json.loads(l)
                if d["run"] == shards[0][2].get("first", 0) or len(sample) < 25:
                    sample.append({"i": d["i"], "a": d["a"], "args": d["args"] if d["a"] != "Reset" else {"profile": d["args"]["profile"]["name"]},
                                   "ev": d["ev"]})
                    if len(sample) >= 25:
                        break
        for s in shards:
            with open(s[0]) as f:
                for l in f:
                    k = l.find('"a":"')
                    a = l[k + 5:l.find('"', k + 5)]
                    actions[a] = actions.get(a, 0) + 1
        formulas = sorted({v["formula"] for v in violations})
        divergences = {k: v for k, v in others.items() if k.startswith("AUX_Conf_")}
        for k, v in sorted(divergences.items()):
            print(f"CONFORMANCE-DIVERGENCE (diagnostic, not a verdict): {k} on {v} run(s): the real transition differs from HQModel")
        coverage = {
            "states": states,
            "transitions": gen,
            "traces_validated_against_impl": total_runs,
            "samples": [{"trace_of_real_execution": sample}],
            "trace_lines": total_lines,
            "runs_reaching_quiescence": quiescent,
            "runs_ending_in_panic": panics,
            "profiles": PROFILES[pid],
            "actions_covered": actions,
            "violated_formulas_of_this_property": formulas,
            "violated_formulas_of_other_properties_seen": others,
            "runs_from_random_walks": n_walk_runs,
            "runs_from_model_behaviours": sum(s[2]["runs"] for s in sims),
            "conformance": {"steps_compared_with_model_transition_functions": sum(CONF.get(s[0], 0) for s in shards),
                            "divergences": divergences,
                            "what": "HQConform.tla: reactor entry points, job layer and worker state machine of HQModel applied to the logged "
                                    "pre-state and arguments, compared with the logged post-state (W2S, S2W, Exit, Cancel, Lose steps of single-node configurations)"},
            "mc": {"formulas_of_this_property": mc_formulas(pid),
                   "runs": [{k: r.get(k) for k in ("instance", "mode", "cfg", "distinct_states", "states_generated", "depth", "completed", "time_bounded", "cached", "constants", "cmd")} for r in mc],
                   "distinct_states_total": sum(r["distinct_states"] for r in mc),
                   "exhaustive_within_constants": all(r["completed"] for r in mc), "time_bounded_instances": [r["instance"] for r in mc if r.get("time_bounded")],
                   **({"temporal_liveness": {"module": "HQLive.tla", "runs": live, "refuted_without_fairness": True}} if live else {})},
            "checker_cmd": "tlc -workers 1 -config HQConform.cfg HQConform.tla (TRACE=<shard>) per shard; tlc -workers 8 -config MC_HQ_<inst>_<mode>.cfg MC_HQ.tla",
            "explanation": "states/transitions = states of real executions on which TLC evaluated every property formula "
                           "(trace validation); model-checking numbers of the design model are reported under 'mc' when present",
        }
        assumptions_extra = []
        if pid in ("C03", "C06", "C07", "C08"):
            # the restart clauses of C03/C06/C07 (a restart must not lose a dependency on an unfinished task, must not reuse an
            # instance id, must keep the crash counts) are decided on restores of real journals
            import journal_engine
            jr = journal_engine.run(pid, tier, seed)
            violations += jr["violations"]
            coverage["restart_clause"] = jr["coverage"]
            coverage["states"] += jr["coverage"]["states"]
            coverage["transitions"] += jr["coverage"]["transitions"]
            assumptions_extra = jr["assumptions"]
        if pid == "C05":
            # "never overbooks" on single decisions of the real scheduler, including amounts so large that a 32-bit float cannot
            # tell "fits" from "does not fit" (hqv sched --tier big) - judged by WithinCapacity of spec/Sched.tla
            import sched_engine
            seen_sig = set()
            n_dec = 0
            for sd, flag, n in ((7, "big", 80), (8, "quick", 3000)):
                trace, st = sched_engine.gen((work, 9000 + sd + seed, flag, n))
                n_dec += st["instances"]
                lines = None
                for v in sched_engine.validate((work, trace)):
                    if not v["p"].startswith("C05_"):
                        continue
                    if lines is None:
                        lines = open(trace).read().splitlines()
                    d = json.loads(lines[v["line"] - 1])
                    sig = f"{v['p']}:{'large-amounts' if flag == 'big' else 'instance=' + d['id']}"
                    if sig in seen_sig:
                        continue
                    seen_sig.add(sig)
                    violations.append({"formula": v["p"], "signature": sig, "replay": {"engine": "sched", "instance": d},
                                       "detail": json.dumps({k: d[k] for k in ("workers", "tasks", "assigned")})[:400]})
            coverage["single_decisions_of_the_real_scheduler_checked_for_capacity"] = n_dec
        return {"level": "model_checking", "coverage": coverage, "violations": violations,
                "assumptions": assumptions_extra + ["fake task launcher: a task ends only by harness choice or by honouring its stop signal",
                                "infrastructure messages (NewWorker/LostWorker/NewResourceRequest) are delivered eagerly",
                                "socket/heartbeat layer replaced by the prologue/epilogue of worker_rpc_loop re-stated in tako::verif"]}
    finally:
        shutil.rmtree(work, ignore_errors=True)


def replay(path):
    common.build_harness()
    work = common.scratch()
    try:
        rep = json.load(open(path))
        trace = os.path.join(work, "replay.ndjson")
        env = dict(os.environ)
        env["TMPDIR"] = work
        p = subprocess.run([common.HQV, "cluster", "replay", "--file", path, "--out", trace], env=env,
                           stdout=subprocess.PIPE, stderr=subprocess.PIPE, text=True, timeout=600)
        print(p.stderr.strip())
        _, viols, _, _ = validate_shard((work, trace))
        lines = load_run(trace, 0)
        seen = set()
        for v in sorted(viols, key=lambda v: v["i"]):
            if v["p"] in seen:
                continue
            seen.add(v["p"])
            idx = next((k for k, ln in enumerate(lines) if ln["i"] == v["i"]), len(lines) - 1)
            print("violated", v["p"], "at line", v["i"], "action", v["a"], "signature", signatures.classify(v["p"], lines, idx))
        want = rep.get("formula")
        if want and want in seen:
            print(f"REPRODUCED property={rep.get('property')} formula={want}")
            return 1
        print("not reproduced" if want else "done")
        return 0
    finally:
        shutil.rmtree(work, ignore_errors=True)
