#!/usr/bin/env python3
"""Compact view of a TLC counterexample: action names and, per state, only the variables that changed."""
import sys, re
txt = sys.stdin.read()
head = [l for l in txt.splitlines() if l.startswith("Error:") or "states generated" in l or "violated" in l]
print("\n".join(head[:10]))
states = re.split(r"\nState (\d+): ", txt)
prev = {}
want = set(sys.argv[1:])
for i in range(1, len(states), 2):
    body = states[i + 1]
    name, _, rest = body.partition("\n")
    rest = rest.split("\n\n")[0]
    vars_ = {}
    for m in re.finditer(r"^/\\ (\w+) = (.*?)(?=^/\\ |\Z)", rest, re.S | re.M):
        vars_[m.group(1)] = " ".join(m.group(2).split())
    print(f"--- State {states[i]}: {name.split(' line')[0]}")
    for k, v in vars_.items():
        if prev.get(k) != v and (not want or k in want):
            print(f"    {k} = {v[:600]}")
    prev = vars_
