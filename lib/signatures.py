"""Signatures of violations found on real-code traces.

A signature names the violated formula, the kind of step at which it first became false in the run,
and - for the histories we have analysed - the characteristic facts of that history.  Known findings
(/verif/known_findings.json) are matched on the complete signature, so a different violation of the
same formula is still reported.
"""
import os
import re


def step_kind(line):
    a = line["a"]
    if a in ("S2W", "W2S"):
        m = line["args"]["m"]
        if m["k"] == "Update":
            return a + ":Update[" + ",".join(u["k"] for u in m["ups"]) + "]"
        return a + ":" + m["k"]
    if a == "Panic":
        c = line["args"].get("choice", {})
        return "Panic:" + str(c.get("c"))
    return a


def norm_msg(msg):
    msg = msg.split("\n")[0]
    msg = re.sub(r"\d+", "#", msg)
    return msg[:80]


def tasks_of(line):
    st = line.get("st") or {}
    return {t["id"]: t for t in st.get("srv", {}).get("tasks", [])}


def classify(formula, lines, i):
    """lines: all lines of the run (list, index = position); i: index of the violating line."""
    cur = lines[i]
    prev = lines[i - 1] if i > 0 else None
    kind = step_kind(cur)
    if formula == "C09_NoPanic":
        loc = cur["panic"]["loc"]
        f = os.path.basename(loc.split(":")[0])
        return f"C09_NoPanic:{f}:{norm_msg(cur['panic']['msg'])}@{kind}"
    extra = ""
    if formula == "C05_NoOverbook" and kind.startswith("W2S:Update[") and "RunningPrefilled" in kind:
        # the reservation of a canceled/aborted running task was released when the cancel was issued,
        # later the worker hands the resources of that task over to a pre-sent task
        w = cur["args"]["w"]
        if any(x["ch"] == "s2w" and x["w"] == w and x["m"]["k"] == "Cancel" for ln in lines[:i] for x in ln.get("sent", [])):
            kind = "W2S:Update[..RunningPrefilled..]"
            extra = "/handover-after-cancel-release"
    if formula in ("C03_NoEarlyStart", "C03_NeverStartedAfterFailedDep", "C03_PropagateAtRest"):
        # was the offending dependent submitted after its dependency was already failed/cancelled ?
        if late_dependent(lines, i):
            extra = "/dependent-submitted-after-dep-ended"
            kind = "*"
    if formula == "C13_StreamGetsCompletion":
        if completed_before_flush(lines, i):
            extra = "/completed-while-flush-pending"
            kind = "*"
    if formula in ("C02_QuiescentOk", "C01_OutcomeAtRest"):
        r = stuck_reason(lines, i)
        if r:
            extra = "/" + r
            kind = "*"
    return f"{formula}@{kind}{extra}"


def late_dependent(lines, i):
    """True iff every task started although a dependency is not finished was submitted after that
    dependency had already been reported failed/cancelled/aborted."""
    ended = {}      # tid -> line index of Failed/Canceled/Aborted
    submitted = {}  # tid -> (line index, deps)
    for k, ln in enumerate(lines[: i + 1]):
        for ev in ln.get("ev", []):
            if ev["k"] == "TaskFailed":
                ended.setdefault(ev["t"], k)
            if ev["k"] in ("TasksCanceled", "TasksAborted"):
                for t in ev["ts"]:
                    ended.setdefault(t, k)
        if ln["a"] == "Submit" and ln["resp"].get("ok"):
            j = ln["resp"]["job"]
            for g in ln["args"].get("graph", []):
                tid = j * 1000 + g["id"]
                if tid not in submitted:
                    submitted[tid] = (k, [j * 1000 + d for d in g["deps"]])
    late = [t for t, (k, deps) in submitted.items() if any(d in ended and ended[d] < k for d in deps)]
    return len(late) > 0


def completed_before_flush(lines, i):
    """JobCompleted of a streaming submit's job was emitted while its journal flush was pending."""
    pending = None
    for ln in lines[: i + 1]:
        if ln["a"] == "Submit" and ln["args"].get("stream"):
            pending = ln["resp"].get("job")
        for ev in ln.get("ev", []):
            if ev["k"] == "JobCompleted" and pending is not None and ev["j"] == pending:
                st = ln.get("st") or {}
                if st.get("pending_flush", 0) > 0 or ln["a"] != "FlushAck":
                    return True
        if ln["a"] == "FlushAck":
            pending = None
    return False


def stuck_reason(lines, i):
    st = lines[i].get("st") or {}
    tasks = st.get("srv", {}).get("tasks", [])
    workers = st.get("srv", {}).get("workers", [])
    queued = set()
    for q in st.get("srv", {}).get("queues", []):
        queued |= {r["t"] for r in q["ready"]} | set(q["pset"])
    classes = None
    for ln in lines:
        if ln["a"] == "Reset":
            classes = ln["args"]["requests"]
    stuck = [t for t in tasks if t["st"] == "W" and t["nd"] == 0]
    if stuck and all(t["id"] not in queued for t in stuck):
        return "waiting-task-in-no-queue"
    if classes and stuck:
        mn_waiting = [t for t in stuck if classes[t["rq"]][0]["n_nodes"] > 0]
        sn_waiting = [t for t in stuck if classes[t["rq"]][0]["n_nodes"] == 0]
        if mn_waiting and sn_waiting and all(max(m["prio"] for m in mn_waiting) > s["prio"] for s in sn_waiting):
            groups = {}
            for w in workers:
                groups.setdefault(w["group"], 0)
                groups[w["group"]] += 1
            need = min(classes[m["rq"]][0]["n_nodes"] for m in mn_waiting)
            if all(n < need for n in groups.values()):
                return "sn-blocked-by-higher-priority-unrunnable-mn"
    return ""
