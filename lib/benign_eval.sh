#!/bin/sh
# usage: benign_eval.sh <diff> <property>...  - applies a property-preserving change to /repo, runs the quick checks, undoes it.
# Every check must stay quiet (exit 0, no VIOLATION).
d=$1; shift
cd /verif
git -C /repo diff --quiet || { echo "/repo is not clean"; exit 2; }
git -C /repo apply /verif/benign/$d || { echo "patch does not apply"; exit 2; }
for pid in "$@"; do
  VERIF_SEED=2 ./check $pid quick > work/benign-$d-$pid.out 2>&1; rc=$?
  echo "benign $d check $pid exit=$rc $(grep -c '^VIOLATION' work/benign-$d-$pid.out) violation line(s), $(grep -c '^CONFORMANCE' work/benign-$d-$pid.out) divergence line(s)"
done
git -C /repo checkout -- .
git -C /verif checkout -- evidence/ 2>/dev/null
