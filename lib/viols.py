#!/usr/bin/env python3
"""List violations from a TLC output: viols.py out.tlc [PROP]"""
import sys, json, re
for l in open(sys.argv[1]):
    if l.startswith('<<"VIOL"'):
        m = re.match(r'<<"VIOL", "(.*)">>\s*$', l)
        v = json.loads(m.group(1).encode().decode('unicode_escape'))
        v.sort(key=lambda x: (x['p'], x['run'], x['i']))
        seen = set()
        for x in v:
            if len(sys.argv) > 2 and x['p'] != sys.argv[2]: continue
            if (x['p'], x['run']) in seen: continue
            seen.add((x['p'], x['run']))
            print(x['p'], 'run', x['run'], 'i', x['i'], x['a'], x['loc'])
