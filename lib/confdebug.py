#!/usr/bin/env python3
"""Finds conformance divergences on fresh shards: confdebug.py <profile> <seed> [nshards]"""
import sys, json, os
sys.path.insert(0, os.path.dirname(__file__))
import common, cluster_engine
prof, seed = sys.argv[1], int(sys.argv[2]); n = int(sys.argv[3]) if len(sys.argv) > 3 else 3
work = "/tmp/mc/confdbg"; os.makedirs(work, exist_ok=True)
common.build_harness()
for s in range(n):
    out, cdir, st = cluster_engine.gen_shard((work, prof, s, 40, 60 + (s % 3) * 20, seed))
    _, viols, _, _ = cluster_engine.validate_shard((work, out))
    for v in viols:
        if v["p"].startswith("AUX_Conf"):
            print(out, v)
    print(out, "compared", cluster_engine.CONF.get(out), "lines", st["steps"])
