"""Engine for C20 (connection handshake).

 1. TLC checks the symbolic handshake model spec/Auth.tla (MC_Auth: HonestAccept, MismatchRefuses, AcceptSound*, NoAcceptOnForeignResponse
    as closed formulas over all 576 configurations x all single adversary moves).
 2. Every scenario of that space (50 112) is replayed on two REAL `do_authentication` futures over in-memory pipes with an interposed
    frame-level adversary (substitution by forged/modified/reflected/replayed frames, bit flips inside the sealed payload).
 3. TLC evaluates the property formulas on the real decisions and requires them to equal the model's (spec/AuthTrace.tla).
"""
import json
import os
import shutil
import subprocess

import common


def run(pid, tier, seed):
    common.build_harness()
    work = common.scratch()
    try:
        out = common.tlc("MC_Auth.tla", "MC_Auth.cfg", work, workers=2, timeout=1800, deque=False)
        if "Model checking completed. No error has been found." not in out:
            raise common.ToolError("MC_Auth failed:\n" + out[-3000:])
        mc = common.tlc_printed(out, "MCAUTH")[-1]
        trace = os.path.join(work, "auth.ndjson")
        p = subprocess.run([common.HQV, "auth", "--seed", str(seed), "--out", trace], stdout=subprocess.PIPE, stderr=subprocess.PIPE,
                           text=True, timeout=3600)
        if p.returncode != 0:
            raise common.ToolError("auth harness failed: " + p.stderr[-2000:])
        stats = json.loads(p.stderr.strip().splitlines()[-1])
        out = common.tlc("AuthTrace.tla", "AuthTrace.cfg", work, env={"TRACE": trace}, workers=1, timeout=3600, xmx="6g")
        verdict = common.tlc_printed(out, "VERDICT")
        viols = common.tlc_printed(out, "VIOL")
        if not verdict or "Model checking completed. No error has been found." not in out or verdict[-1]["diameter"] - 1 != verdict[-1]["lines"]:
            raise common.ToolError("auth trace validation did not complete:\n" + out[-3000:])
        lines = open(trace).read().splitlines()
        violations = []
        seen = set()
        for v in viols[-1] if viols else []:
            d = json.loads(lines[v["line"] - 1])
            sig = f"{v['p']}:slot{d['slot']}:{d['m']['kind']}:{d['m']['src'] or d['m']['ch']}"
            if sig in seen:
                continue
            seen.add(sig)
            violations.append({"formula": v["p"], "signature": sig, "replay": {"engine": "auth", "scenario": d},
                               "detail": json.dumps({k: d[k] for k in ("a", "b", "slot", "m", "acceptA", "acceptB")})})
        # the worker's real connection path with cut connections and retries (hqv authretry, ~12 s of real time)
        rtrace = os.path.join(work, "authretry.ndjson")
        p = subprocess.run([common.HQV, "authretry", "--out", rtrace], stdout=subprocess.PIPE, stderr=subprocess.PIPE, text=True, timeout=600)
        if p.returncode != 0:
            raise common.ToolError("authretry harness failed: " + p.stderr[-2000:])
        out = common.tlc("AuthRetryTrace.tla", "AuthRetryTrace.cfg", work, env={"TRACE": rtrace}, workers=1, timeout=600)
        verdict = common.tlc_printed(out, "VERDICT")
        rviols = common.tlc_printed(out, "VIOL")
        if not verdict or "Model checking completed. No error has been found." not in out or verdict[-1]["diameter"] - 1 != verdict[-1]["lines"]:
            raise common.ToolError("authretry trace validation did not complete:\n" + out[-3000:])
        rlines = open(rtrace).read().splitlines()
        for v in rviols[-1] if rviols else []:
            d = json.loads(rlines[v["line"] - 1])
            sig = f"{v['p']}:retry:worker={d['worker_key']}:peer={d['peer_key']}:cut={d['dropped_first']}"
            if sig in seen:
                continue
            seen.add(sig)
            violations.append({"formula": v["p"], "signature": sig, "replay": {"engine": "auth", "retry_case": d}, "detail": json.dumps(d)})
        accepts = sum(1 for l in lines if '"acceptA":true' in l or '"acceptB":true' in l)
        coverage = {
            "states": mc["scenarios"], "transitions": mc["scenarios"],
            "traces_validated_against_impl": stats["scenarios_run"],
            "samples": [json.loads(lines[0]), json.loads(lines[len(lines) // 2])],
            "configurations": mc["configs"], "scenario_space": stats["scenario_space"], "scenarios_run_on_real_code": stats["scenarios_run"],
            "scenarios_with_an_accepting_endpoint": accepts, "exhaustive": stats["scenarios_run"] == stats["scenario_space"],
            "worker_connection_path_cases_with_cut_connections": len(rlines),
            "checker_cmd": "tlc MC_Auth.tla; hqv auth; tlc AuthTrace.tla; hqv authretry; tlc AuthRetryTrace.tla",
            "explanation": "states = scenarios (configuration x single adversary move) over which the closed property formulas of Auth.tla "
                           "were evaluated by TLC; every one of them was executed on the real do_authentication",
        }
        return {"level": "model_checking", "coverage": coverage, "violations": violations,
                "assumptions": ["symbolic cryptography (orion AEAD assumed unforgeable); the adversary holds no key",
                                "one replaced message per run, as the property quantifies",
                                "endpoint kinds: server<->worker, server<->client; 2 protocol numbers; 2 keys + none"]}
    finally:
        shutil.rmtree(work, ignore_errors=True)
