#!/usr/bin/env python3
"""Confirms a seeded change in its scratch worktree:
   1. the change compiles and the repository's own tests (BASELINE stable_pass) pass with it,
   2. the demonstration test fails with the change and passes without it.
 usage: mut_confirm.py <worktree> <seeded-dir> <crate> <test-file (relative)> <test-name> [append|inmod]
 The demo test (seeded-dir/demo_test.rs) is appended to the test file (append) or inserted before the final '}' of the file (inmod)."""
import json, os, re, subprocess, sys
wt, sd, crate, tfile, tname = sys.argv[1:6]
mode = sys.argv[6] if len(sys.argv) > 6 else "append"
env = dict(os.environ); env.pop("RUST_BACKTRACE", None); env["CARGO_NET_OFFLINE"] = "true"

def sh(cmd, timeout=None, **kw):
    # a hanging test binary (the tako integration tests sometimes dead-lock on a loaded machine) must not block the queue
    if timeout:
        cmd = ['timeout', '-k', '10', str(timeout)] + cmd
    return subprocess.run(cmd, cwd=wt, env=env, stdout=subprocess.PIPE, stderr=subprocess.STDOUT, text=True, **kw)

def baseline():
    base = json.load(open('/root/.vp/BASELINE.json')); stable = set(base['stable_pass'])
    p = sh(['cargo', 'test', '--workspace', '--no-fail-fast', '--offline'], timeout=1500)
    crate_, passed = None, set()
    for line in p.stdout.splitlines():
        m = re.search(r'Running (?:unittests )?\S+ \(target/debug/deps/([a-zA-Z0-9_]+)-[0-9a-f]+\)', line)
        if m: crate_ = m.group(1)
        m = re.match(r'test (\S+)(?: - should panic)? \.\.\. (ok|FAILED|ignored)', line)
        if m and crate_ and m.group(2) == 'ok': passed.add(f'{crate_}::{m.group(1)}')
    missing = sorted(stable - passed)
    if len(missing) > 10:
        for cr in sorted({m.partition('::')[0] for m in missing}):
            q = sh(['cargo', 'test', '-p', cr, '--offline', '--lib', '--no-fail-fast', '--', '--test-threads=4'], timeout=1500)
            for line in q.stdout.splitlines():
                m = re.match(r'test (\S+)(?: - should panic)? \.\.\. ok', line)
                if m: passed.add(f'{cr}::{m.group(1)}')
        missing = sorted(stable - passed)
    # timing-sensitive tests fail on a loaded machine: re-run each missing test alone (up to 3 times)
    still = []
    for name in missing:
        cr, _, test = name.partition('::')
        ok = False
        for _ in range(3):
            q = sh(['cargo', 'test', '-p', cr, '--offline', '--lib', test, '--', '--exact'], timeout=300)
            if re.search(r'test result: ok\. 1 passed', q.stdout):
                ok = True
                break
        if not ok:
            still.append(name)
    return still, len(passed)

def demo():
    path = os.path.join(wt, tfile); orig = open(path).read(); test = open(os.path.join(sd, 'demo_test.rs')).read()
    try:
        if mode == "append":
            open(path, 'w').write(orig + "\n" + test + "\n")
        else:
            k = orig.rstrip().rfind('}')
            open(path, 'w').write(orig[:k] + "\n" + test + "\n}\n")
        p = sh(['cargo', 'test', '-p', crate, '--offline', '--lib', tname], timeout=1200)
        m = re.search(r'test result: (\w+)\. (\d+) passed; (\d+) failed', p.stdout)
        ran = re.search(r'running (\d+) test', p.stdout)
        return (m.group(1), int(m.group(2)), int(m.group(3))) if m else ("BUILD-ERROR", 0, 0), p.stdout[-1500:]
    finally:
        open(path, 'w').write(orig)

res = {}
assert sh(['git', 'diff', '--quiet']).returncode != 0, "worktree has no change"
patch = sh(['git', 'diff', '--', 'crates']).stdout
res['patch_matches'] = patch.strip() == open(os.path.join(sd, 'patch.diff')).read().strip()
missing, n = baseline()
res['baseline_with_change'] = {'passed': n, 'stable_not_passed': missing[:10]}
r, out = demo(); res['demo_with_change'] = r
if r[0] == "BUILD-ERROR": res['demo_output'] = out
sh(['git', 'stash'])
try:
    r2, out2 = demo(); res['demo_without_change'] = r2
finally:
    sh(['git', 'stash', 'pop'])
res['confirmed'] = bool(res['patch_matches'] and not missing and r[2] >= 1 and r2[0] == 'ok' and r2[1] >= 1)
print(json.dumps(res))
json.dump(res, open(os.path.join(sd, 'confirmation.json'), 'w'), indent=1)
