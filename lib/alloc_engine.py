"""Engine for the worker resource allocator properties C04 and C16.

The real tako ResourceAllocator is explored systematically (all sequences of try_allocate/release over a request
alphabet up to a depth bound, de-duplicated on the free state, random continuation beyond the bound); every distinct
transition is judged by TLC against spec/Alloc.tla (ValidIndices, ExactGrant, PolicyGrant with brute-force
MinGroups/MaxGroups, Feasible) through spec/AllocTrace.tla.  C04 additionally evaluates the allocations held by
concurrently running tasks in the cluster simulation (hand-over in prefill_loop, release on cancel/failure).
"""
import concurrent.futures as cf
import json
import os
import shutil
import subprocess

import common

CONFIGS = {"quick": ["list4", "groups2x2", "groups321", "mixed", "coupled", "twogrouped", "groups26", "sumfrac", "labels"],
           "thorough": ["list4", "groups2x2", "groups321", "mixed", "coupled", "twogrouped", "groups26", "sumfrac", "labels", "groups4x2", "groups133"]}
BUDGET = {"quick": (3, 260), "thorough": (5, 6000)}  # exhaustive depth, max states per configuration


def gen(args):
    workdir, config, tier, depth, max_states, seed = args
    out = os.path.join(workdir, f"alloc-{config}.ndjson")
    p = subprocess.run([common.HQV, "alloc", "--config", config, "--tier", tier, "--depth", str(depth), "--max-states", str(max_states),
                        "--seed", str(seed), "--out", out], stdout=subprocess.PIPE, stderr=subprocess.PIPE, text=True, timeout=7200)
    if p.returncode == 3 and os.path.exists(out + ".hang"):
        # an operation of the real allocator did not return: data, not a tool error
        return out, {"hang": json.load(open(out + ".hang")), "states": 0, "transitions": 0, "granted": 0, "refused": 0, "exhaustive_to_depth": False}
    if p.returncode != 0:
        raise common.ToolError(f"alloc harness failed on {config}: {p.stderr[-2000:]}")
    return out, json.loads(p.stderr.strip().splitlines()[-1])


def validate(args):
    workdir, trace = args
    out = common.tlc("AllocTrace.tla", "AllocTrace.cfg", workdir, env={"TRACE": trace}, workers=1, timeout=7200, xmx="6g")
    verdict = common.tlc_printed(out, "VERDICT")
    viols = common.tlc_printed(out, "VIOL")
    if not verdict or "Model checking completed. No error has been found." not in out:
        raise common.ToolError("alloc trace validation did not complete on " + trace + ":\n" + out[-3000:])
    if verdict[-1]["diameter"] - 1 != verdict[-1]["lines"]:
        raise common.ToolError("alloc trace not fully consumed: " + trace)
    return viols[-1] if viols else []


def groups_needed(pool, amount):
    """smallest number of groups whose free whole indices cover the amount (fractions rounded up) - for signatures only"""
    units = -(-amount // 10000)
    n = got = 0
    for k in sorted((len(g) for g in pool["free"]), reverse=True):
        if got >= units:
            break
        got += k
        n += 1
    return n if got >= units else None


def refusal_reason(line):
    """characteristic facts of the two analysed kinds of spurious refusal of a request with a strict entry"""
    pre, ps0 = line["pre"]["pools"], line["ps0"]
    grouped = [e for e in line["rq"] if pre[e["r"]]["kind"] == "groups" and e["policy"] != "all"]
    strict = [e for e in grouped if e["policy"].endswith("!")]
    loose = [e for e in grouped if not e["policy"].endswith("!")]
    now = {id(e): groups_needed(pre[e["r"]], e["amount"]) for e in grouped}
    empty = {id(e): groups_needed(ps0[e["r"]], e["amount"]) for e in grouped}
    if not strict or any(now[id(e)] is None or now[id(e)] != empty[id(e)] for e in strict):
        return ""
    if any(now[id(e)] is not None and now[id(e)] > empty[id(e)] for e in loose):
        return "/every-strict-entry-fits-its-minimum;a-non-strict-entry-needs-more-groups-than-on-the-empty-worker"
    if any(len({len(g) for g in ps0[e["r"]]["free"]}) > 1 for e in strict):
        return "/strict-entry-fits-its-minimum-number-of-groups;groups-of-unequal-size"
    return ""


def signature(formula, line):
    """formula + policy shape + the characteristic fact of the transition"""
    pol = "+".join(sorted(e["policy"] for e in line["rq"])) or line["op"]
    extra = ""
    if formula == "C16_PolicyGroups" and pol == "scatter" and line["alloc"]:
        idx = line["alloc"][0]["idx"]
        fr = [x for x in idx if x["f"] > 0]
        whole_groups = {x["g"] for x in idx if x["f"] == 0}
        if fr and fr[0]["g"] in whole_groups:
            extra = "/fraction-from-a-group-that-also-gave-a-whole-index"
    if formula == "C16_NoSpuriousRefusal":
        extra = refusal_reason(line)
    if line.get("pan"):
        extra = "/" + os.path.basename(line.get("ploc", "").split(":")[0])
    return f"{formula}:{pol}{extra}"


def run(pid, tier, seed):
    common.build_harness()
    work = common.scratch()
    try:
        depth, max_states = BUDGET[tier]
        jobs = [(work, c, tier, depth, max_states, seed) for c in CONFIGS[tier]]
        with cf.ThreadPoolExecutor(max_workers=len(jobs)) as ex:
            gens = list(ex.map(gen, jobs))
        hangs = [g for g in gens if "hang" in g[1]]
        gens = [g for g in gens if "hang" not in g[1]]
        with cf.ThreadPoolExecutor(max_workers=max(2, common.NCPU // 2)) as ex:
            viols = list(ex.map(validate, [(work, g[0]) for g in gens]))
        violations = []
        for _, st in hangs:
            d = st["hang"]
            pol = "+".join(sorted(e["policy"] for e in d["rq"])) or d["op"]
            violations.append({"formula": f"{pid}_RequestDecided", "signature": f"{pid}_RequestDecided:{pol}/no-answer-within-20s",
                               "replay": {"engine": "alloc", "transition": d},
                               "detail": f"config {d['d']}: {d['op']} {json.dumps(d['rq'])} did not return; free {json.dumps([p['free'] for p in d['pre']['pools']])}"})
        others = {}
        sample = None
        for (trace, stats), vs in zip(gens, viols):
            lines = None
            for v in vs:
                prop = v["p"].split("_")[0]
                if prop != pid:
                    others[v["p"]] = others.get(v["p"], 0) + 1
                    continue
                if lines is None:
                    lines = open(trace).read().splitlines()
                d = json.loads(lines[v["line"] - 1])
                violations.append({"formula": v["p"], "signature": signature(v["p"], d),
                                   "replay": {"engine": "alloc", "transition": d},
                                   "detail": f"config {d['d']} request {json.dumps(d['rq'])} free {json.dumps([p['free'] for p in d['pre']['pools']])}"})
            if sample is None:
                with open(trace) as f:
                    for k, l in enumerate(f):
                        if k == 40:
                            d = json.loads(l)
                            sample = {k2: d[k2] for k2 in ("d", "op", "rq", "enabled", "granted", "alloc")}
                            sample["pre_free"] = [p["free"] for p in d["pre"]["pools"]]
                            break
        coverage = {
            "states": sum(g[1]["states"] for g in gens),
            "transitions": sum(g[1]["transitions"] for g in gens),
            "traces_validated_against_impl": sum(g[1]["transitions"] for g in gens),
            "samples": [sample],
            "grants": sum(g[1]["granted"] for g in gens), "refusals": sum(g[1]["refused"] for g in gens),
            "configurations": CONFIGS[tier], "exhaustive_depth": depth, "max_states_per_configuration": max_states,
            "exhaustive": all(g[1]["exhaustive_to_depth"] for g in gens),
            "violated_formulas_of_other_properties_seen": others,
            "checker_cmd": "tlc -workers 1 -config AllocTrace.cfg AllocTrace.tla (TRACE=<transitions of one configuration>)",
            "explanation": "states = distinct (free state, live grants) of the real allocator; transitions = distinct real try_allocate/release calls judged by TLC",
        }
        result = {"level": "model_checking", "coverage": coverage, "violations": violations,
                  "assumptions": ["descriptors and request alphabets are those of harness/src/alloc.rs",
                                  "policy clauses are not judged for descriptors with coupling weights (the objective trades groups against weights)"]}
        if pid == "C04":
            # the cluster simulation contributes the allocations of concurrently running tasks
            import cluster_engine
            cr = cluster_engine.run("C04", tier, seed)
            result["violations"] += cr["violations"]
            result["coverage"]["cluster"] = cr["coverage"]
            result["assumptions"] += cr["assumptions"]
        return result
    finally:
        shutil.rmtree(work, ignore_errors=True)
