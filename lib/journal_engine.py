"""Engine for the journal properties C10, C11, C12 (and the restart clauses of C06, C07).

Journals are produced by real executions of the cluster simulation (with prunes, queue records, open jobs,
losses, launch failures ...).  Every journal is cut at every record boundary and inside torn records and
restored with the real StateRestorer into a fresh server; every prune is performed with the real
prune_journal.  TLC evaluates the formulas of spec/JournalTrace.tla (reference semantics: spec/Journal.tla).
"""
import concurrent.futures as cf
import json
import os
import re
import shutil
import subprocess

import common

PROFILES = ["jmixed", "jopen", "jloss", "jmn"]
BUDGET = {"quick": (25, 4, 70, 8), "thorough": (50, 24, 100, 64)}  # runs/shard, shards/profile, steps, torn offsets

# formulas evaluated by this engine, by property
FORMULA_PROP = {
    "C06_InstAfterRestart": "C06", "C07_CrashSurvivesRestart": "C07",
}


def prop_of(formula):
    return FORMULA_PROP.get(formula, formula.split("_")[0])


def gen_shard(args):
    workdir, profile, shard, runs, steps, torn, seed = args
    out = os.path.join(workdir, f"j-{profile}-{shard}.ndjson")
    cdir = os.path.join(workdir, f"j-{profile}-{shard}.choices")
    os.makedirs(cdir, exist_ok=True)
    tmp = os.path.join(workdir, f"jtmp-{profile}-{shard}")
    os.makedirs(tmp, exist_ok=True)
    env = dict(os.environ)
    env["TMPDIR"] = tmp
    p = subprocess.run(
        [common.HQV, "journal", "--profile", profile, "--seed", str(seed * 1000 + shard), "--runs", str(runs), "--steps", str(steps),
         "--first-run", str(shard * runs), "--torn", str(torn), "--out", out, "--choices-dir", cdir],
        env=env, stdout=subprocess.PIPE, stderr=subprocess.PIPE, text=True, timeout=3600)
    shutil.rmtree(tmp, ignore_errors=True)
    if p.returncode != 0:
        raise common.ToolError(f"journal harness failed on {profile}/{shard}: {p.stderr[-2000:]}")
    stats = json.loads(p.stderr.strip().splitlines()[-1])
    return out, cdir, stats


def validate(args):
    workdir, trace = args
    out = common.tlc("JournalTrace.tla", "JournalTrace.cfg", workdir, env={"TRACE": trace}, workers=1, timeout=3600)
    verdict = common.tlc_printed(out, "VERDICT")
    viols = common.tlc_printed(out, "VIOL")
    if not verdict or "Model checking completed. No error has been found." not in out:
        raise common.ToolError("journal trace validation did not complete on " + trace + ":\n" + out[-3000:])
    if verdict[-1]["diameter"] - 1 != verdict[-1]["lines"]:
        raise common.ToolError("journal trace not fully consumed: " + trace)
    states, gen = common.tlc_stats(out)
    return viols[-1] if viols else [], states, gen


def validate_thread(args):
    """the steps of the REAL journal thread (one per line) against JournalModel / JournalThreadTrace.tla
    -> (violations [{p, run, k}], lines)"""
    workdir, trace = args
    flat = trace.replace(".ndjson", "-thread.ndjson")
    n = 0
    with open(flat, "w") as f:
        for line in open(trace):
            d = json.loads(line)
            for k, st in enumerate(d.get("thread") or []):
                st["k"] = k
                f.write(json.dumps(st) + "\n")
                n += 1
    if n == 0:
        return [], 0
    out = common.tlc("JournalThreadTrace.tla", "JournalThreadTrace.cfg", workdir, env={"TRACE": flat}, workers=1, timeout=3600)
    verdict = common.tlc_printed(out, "VERDICT")
    viols = common.tlc_printed(out, "VIOL")
    if not verdict or "Model checking completed. No error has been found." not in out or verdict[-1]["diameter"] - 1 != verdict[-1]["lines"]:
        raise common.ToolError("journal thread trace validation did not complete on " + flat + ":\n" + out[-3000:])
    return (viols[-1] if viols else []), n


def boot_check(workdir):
    """C11 on the real start-up path: `hqv boot` starts the real server in-process on journals that carry a uid
    -> (violations, lines)"""
    out = os.path.join(workdir, "boot.ndjson")
    p = subprocess.run([common.HQV, "boot", "--out", out], stdout=subprocess.PIPE, stderr=subprocess.PIPE, text=True, timeout=600)
    if p.returncode != 0:
        raise common.ToolError("boot harness failed: " + p.stderr[-2000:])
    tl = common.tlc("BootTrace.tla", "BootTrace.cfg", workdir, env={"TRACE": out}, workers=1, timeout=600)
    verdict = common.tlc_printed(tl, "VERDICT")
    viols = common.tlc_printed(tl, "VIOL")
    if not verdict or "Model checking completed. No error has been found." not in tl or verdict[-1]["diameter"] - 1 != verdict[-1]["lines"]:
        raise common.ToolError("boot trace validation did not complete:\n" + tl[-3000:])
    cases = [json.loads(l) for l in open(out)]
    res = []
    for v in (viols[-1] if viols else []):
        res.append({"formula": v["p"], "signature": v["p"] + "@start", "replay": {"engine": "journal", "boot_case": cases[v["case"] - 1]},
                    "detail": "real server start: " + json.dumps(cases[v["case"] - 1])[:300]})
    return res, len(cases)


MC = {"quick": ["MC_Journal_S0.cfg"], "thorough": ["MC_Journal_S0.cfg", "MC_Journal_S1.cfg"]}


def model_check(tier):
    res = [common.model_check_cached("JournalModel.tla", c, ["JournalModel.tla"], workers=8, timeout=3 * 3600) for c in MC[tier]]
    # anti-vacuity: the wrong design "the prune opens its reader before the writer is flushed" must be refuted by the same invariants
    work = common.scratch()
    try:
        out = common.tlc("JournalModel.tla", "MC_Journal_bad.cfg", work, workers=4, timeout=600, deque=False)
    finally:
        shutil.rmtree(work, ignore_errors=True)
    refuted = bool(re.search(r"Invariant (C12_OnlyDeadRemoved|C10_AckedIsDurable|C10_NothingLostOnTheWay) is violated", out))
    if not refuted:
        raise common.ToolError("the wrong variant of the journal thread (MC_Journal_bad.cfg) is not refuted: the invariants are vacuous\n" + out[-2000:])
    return res, refuted


def signature(v):
    sig = f"{v['p']}@{v['part']}"
    if v.get("loc"):
        sig += ":" + os.path.basename(v["loc"].split(":")[0])
    return sig


def run(pid, tier, seed):
    common.build_harness()
    work = common.scratch()
    try:
        runs, nshards, steps, torn = BUDGET[tier]
        jobs = [(work, profile, s, runs, steps + (s % 3) * 15, torn, seed) for profile in PROFILES for s in range(nshards)]
        with cf.ThreadPoolExecutor(max_workers=max(2, common.NCPU - 2)) as ex:
            shards = list(ex.map(gen_shard, jobs))
        with cf.ThreadPoolExecutor(max_workers=max(2, common.NCPU // 2)) as ex:
            results = list(ex.map(validate, [(work, s[0]) for s in shards]))
            thread_results = list(ex.map(validate_thread, [(work, s[0]) for s in shards]))
        mc, refuted = model_check(tier)
        violations = []
        others = {}
        divergences = {}
        for (trace, cdir, _), (tviols, _) in zip(shards, thread_results):
            seen = set()
            for v in tviols:
                if v["p"].startswith("AUX_"):
                    divergences.setdefault(v["p"], set()).add(v["run"])
                    continue
                if (v["p"], v["run"]) in seen:
                    continue
                seen.add((v["p"], v["run"]))
                if prop_of(v["p"]) != pid:
                    others[v["p"]] = others.get(v["p"], 0) + 1
                    continue
                replay = {}
                cf_ = os.path.join(cdir, f"run{v['run']}.json")
                if os.path.exists(cf_):
                    replay = json.load(open(cf_))
                replay["engine"] = "journal"
                violations.append({"formula": v["p"], "signature": v["p"] + "@thread", "replay": replay,
                                   "detail": f"run {v['run']} journal thread step {v['k']}"})
        for k, v in sorted(divergences.items()):
            print(f"CONFORMANCE-DIVERGENCE (diagnostic, not a verdict): {k} on {len(v)} run(s): the real journal thread differs from JournalModel")
        boot_cases = 0
        if pid == "C11":
            bv, boot_cases = boot_check(work)
            violations += bv
        for (trace, cdir, _), (viols, _, _) in zip(shards, results):
            first = {}
            for v in viols:
                key = (v["p"], v["run"])
                if key not in first:
                    first[key] = v
            for (formula, r), v in sorted(first.items()):
                if prop_of(formula) != pid:
                    others[formula] = others.get(formula, 0) + 1
                    continue
                replay = {}
                cf_ = os.path.join(cdir, f"run{r}.json")
                if os.path.exists(cf_):
                    replay = json.load(open(cf_))
                replay["engine"] = "journal"
                violations.append({"formula": formula, "signature": signature(v), "replay": replay,
                                   "detail": f"run {r} {v['part']} at {v['at']} {v.get('loc', '')}".strip()})
        n_runs = sum(s[2]["runs"] for s in shards)
        cuts = sum(s[2]["cuts"] for s in shards)
        records = sum(s[2]["records"] for s in shards)
        sample = None
        with open(shards[0][0]) as f:
            line = f.readline()
            if line:
                d = json.loads(line)
                sample = {"journal": d["journal"][:12], "cuts": [{k: c[k] for k in ("k", "ok", "jc", "wc", "qc")} for c in d["cuts"][:5]],
                          "torn": d["torn"][:3], "n_prunes": len(d["prunes"])}
        torn_n = 0
        prune_n = 0
        for s in shards:
            with open(s[0]) as f:
                for line in f:
                    torn_n += line.count('"same_as_prev"')
                    prune_n += line.count('"reprune_same"')
        coverage = {
            "states": sum(r[1] for r in results), "transitions": sum(r[2] for r in results),
            "traces_validated_against_impl": n_runs,
            "samples": [sample],
            "journals": n_runs, "journal_records": records, "restores_at_record_boundaries": cuts,
            "torn_tail_restores": torn_n, "prunes": prune_n, "profiles": PROFILES,
            "violated_formulas_of_other_properties_seen": others,
            "real_server_starts_with_an_existing_journal": boot_cases,
            "journal_thread": {"steps_of_the_real_thread_validated": sum(t[1] for t in thread_results),
                               "conformance_divergences": {k: len(v) for k, v in divergences.items()},
                               "model_checking": mc, "wrong_design_refuted": refuted},
            "checker_cmd": "tlc -workers 1 -config JournalTrace.cfg JournalTrace.tla (TRACE=<shard>); tlc -workers 1 -config JournalThreadTrace.cfg JournalThreadTrace.tla (TRACE=<thread steps of the shard>); tlc -config MC_Journal_<inst>.cfg JournalModel.tla",
        }
        return {"level": "model_checking", "coverage": coverage, "violations": violations,
                "assumptions": ["journals are those produced by the explored executions of the cluster simulation",
                                "crash points = record boundaries and byte offsets inside the last / a middle record",
                                "JournalWriter/JournalReader carry the abstract records (bincode fidelity itself is not modelled)"]}
    finally:
        shutil.rmtree(work, ignore_errors=True)


def replay(path):
    common.build_harness()
    work = common.scratch()
    try:
        rep = json.load(open(path))
        if "boot_case" in rep:
            # a start of the real server on a journal with a uid: the fixed cases are simply run again
            bv, _ = boot_check(work)
            seen = sorted({v["formula"] for v in bv})
        else:
            trace = os.path.join(work, "replay.ndjson")
            env = dict(os.environ)
            env["TMPDIR"] = work
            subprocess.run([common.HQV, "journal", "--replay", path, "--torn", "16", "--out", trace], env=env, timeout=900)
            viols, _, _ = validate((work, trace))
            tviols, _ = validate_thread((work, trace))
            seen = sorted({v["p"] for v in viols} | {v["p"] for v in tviols if not v["p"].startswith("AUX_")})
        for f in seen:
            print("violated", f)
        want = rep.get("formula")
        if want and want in seen:
            print(f"REPRODUCED property={rep.get('property')} formula={want}")
            return 1
        print("not reproduced" if want else "done")
        return 0
    finally:
        shutil.rmtree(work, ignore_errors=True)
