#!/bin/sh
# usage: mut_confirm_queue.sh "<id> <worktree> [crate file test mode]" ...   (sequential)
for spec in "$@"; do
  set -- $spec
  id=$1; wt=$2
  if [ -n "$3" ]; then
    python3 /verif/lib/mut_confirm.py $wt /verif/seeded/$id $3 $4 $5 $6
  else
    eval $(python3 -c "
import json
d=json.load(open('/verif/seeded/$id/meta.json'))['demo']
print('crate=%s file=%s test=%s mode=%s' % (d['crate'], d['test_file'], d['test_name'], d['mode'].split()[0]))")
    python3 /verif/lib/mut_confirm.py $wt /verif/seeded/$id $crate $file $test $mode
  fi
done
