"""The cluster model (spec/HQModel.tla): instances, exhaustive model checking, behaviour export.

 * INSTANCES is the single description of the small configurations; `generate()` writes spec/MC_HQ.tla and the
   .cfg files from it (committed; `python3 lib/hq_model.py gen` regenerates them) and `profile_of()` derives the
   harness profile of the same configuration, so that behaviours of the model can be replayed on the real code.
 * model_check(): TLC, breadth first, every invariant of HQ.tla + NoPanic + the step properties; results are cached in
   work/mc_cache by the hash of the specification files (the model does not depend on /repo).
 * behaviours(): `tlc -simulate file=...` on MC_HQSim; each simulated behaviour is translated into the environment
   steps of the harness (job ids renumbered in submission order).
"""
import hashlib
import json
import os
import re
import shutil
import subprocess
import sys

import common

SPEC = os.path.join(common.VERIF, "spec")

# tasks: (id, deps, class, prio)
INSTANCES = {
    # two 1-cpu workers, one class, a dependency, a later job of higher priority
    "A": dict(workers=[1, 1], classes=[1],
              menu=[dict(tasks=[(1, [], 0, 0), (2, [], 0, 0), (3, [1], 0, 0)], climit=1, max_fails=-1),
                    dict(tasks=[(1, [], 0, 1)], climit=1, max_fails=-1)],
              losses=1, cancels=1, fails=1, launch_fails=0, pf_reserve=0, pf_max=1, modes=["any", "eager"], tier="thorough"),
    # two classes competing for a 2-cpu and a 1-cpu worker; job failure limit 0; crash limit 2; launch failure
    "B": dict(workers=[2, 1], classes=[1, 2],
              menu=[dict(tasks=[(1, [], 0, 0), (2, [], 1, 0), (3, [], 0, 0)], climit=2, max_fails=0),
                    dict(tasks=[(1, [], 1, 1)], climit=0, max_fails=-1)],
              losses=1, cancels=0, fails=1, launch_fails=1, pf_reserve=0, pf_max=1, modes=["eager"], tier="quick"),
    # one worker with a deep backlog (proactive filling of two tasks), cancel, loss, never-restart task
    "C": dict(workers=[1], classes=[1],
              menu=[dict(tasks=[(1, [], 0, 0), (2, [], 0, 0), (3, [], 0, 0), (4, [2], 0, 0)], climit=1, max_fails=1),
                    dict(tasks=[(1, [], 0, 2)], climit=-1, max_fails=-1)],
              losses=1, cancels=1, fails=1, launch_fails=0, pf_reserve=0, pf_max=2, modes=["eager"], tier="quick"),
    # two workers, prefilling with a higher-priority arrival (dispose / retract / redirect), two cancels
    "D": dict(workers=[1, 1], classes=[1],
              menu=[dict(tasks=[(1, [], 0, 0), (2, [], 0, 0), (3, [], 0, 0)], climit=0, max_fails=-1),
                    dict(tasks=[(1, [], 0, 3), (2, [1], 0, 3)], climit=0, max_fails=-1)],
              losses=0, cancels=1, fails=0, launch_fails=0, pf_reserve=0, pf_max=1, modes=["any"], tier="thorough"),
    # a 2-node task among single-node tasks on three workers of two groups: placement, root / non-root loss, cancel, prefill
    "E": dict(workers=[1, 1, 1], groups=["g1", "g1", "g2"], classes=[1, ("mn", 2)],
              menu=[dict(tasks=[(1, [], 0, 0), (2, [], 0, 0)], climit=1, max_fails=-1),
                    dict(tasks=[(1, [], 1, 1)], climit=1, max_fails=-1)],
              losses=1, cancels=1, fails=1, launch_fails=0, pf_reserve=0, pf_max=1, modes=["eager"], tier="thorough"),
    # an open job: two submits attached to it (the second depends on a task of the first), close, cancel, failure
    "O": dict(workers=[1, 1], classes=[1], open_jobs={1: -1},
              menu=[dict(job=1, tasks=[(1, [], 0, 0), (2, [1], 0, 0)], climit=0, max_fails=-1),
                    dict(job=1, tasks=[(3, [1], 0, 0), (4, [3], 0, 1)], climit=0, max_fails=-1),
                    dict(job=2, tasks=[(1, [], 0, 0)], climit=0, max_fails=-1)],
              losses=0, cancels=1, fails=1, launch_fails=0, pf_reserve=0, pf_max=1, modes=["eager"], tier="thorough"),
    # time: a worker with 2 hours of life and one without limit; a class that needs 2 hours; a task time limit of 1 hour;
    # pre-sent tasks, a later job of higher priority; three hours may pass
    "T": dict(workers=[1, 1], life=[2, -1], classes=[("time", 1, 2), 1], ticks=3,
              menu=[dict(tasks=[(1, [], 0, 0), (2, [], 0, 0), (3, [], 0, 0)], climit=0, max_fails=-1),
                    dict(tasks=[(1, [], 1, 5)], climit=0, max_fails=-1, tlimit=1)],
              losses=0, cancels=1, fails=0, launch_fails=0, pf_reserve=0, pf_max=2, modes=["eager"], tier="thorough"),
    # a worker that arrives late: pre-sent tasks on the first worker are redirected to it; loss, cancel, higher-priority arrival
    "N": dict(workers=[1, 1], late=[2], classes=[1],
              menu=[dict(tasks=[(1, [], 0, 0), (2, [], 0, 0), (3, [], 0, 0)], climit=1, max_fails=-1),
                    dict(tasks=[(1, [], 0, 4)], climit=1, max_fails=-1)],
              losses=1, cancels=1, fails=0, launch_fails=0, pf_reserve=0, pf_max=2, modes=["eager"], tier="thorough"),
    # a 2-node task that becomes placeable only when the second worker of its group arrives
    "N2": dict(workers=[1, 1, 1], late=[3], groups=["g1", "g2", "g1"], classes=[1, ("mn", 2)],
               menu=[dict(tasks=[(1, [], 0, 0), (2, [], 0, 0)], climit=1, max_fails=-1),
                     dict(tasks=[(1, [], 1, 1)], climit=1, max_fails=-1)],
               losses=1, cancels=0, fails=0, launch_fails=0, pf_reserve=0, pf_max=1, modes=["eager"], tier="quick"),
    # a canceled execution that dies slowly on a 3-cpu worker: the next 2-cpu task is refused (request shape blocked), a 1-cpu
    # task ends in between, the shape has to be re-enabled when the resources finally come back
    "R": dict(workers=[3], classes=[2, 1], slow_stop=True,
              menu=[dict(tasks=[(1, [], 0, 0)], climit=0, max_fails=-1),
                    dict(tasks=[(1, [], 1, 0), (2, [], 1, 0)], climit=0, max_fails=-1),
                    dict(tasks=[(1, [], 0, 0)], climit=0, max_fails=-1)],
              losses=0, cancels=2, fails=0, launch_fails=0, pf_reserve=0, pf_max=1, modes=["eager"], tier="quick"),
    # restart from the journal at every crash point (journal kept as history variable, so the instance is tiny):
    # dependency + job failure limit 0 + crash limit 2, two losses, a failure, a cancel
    "J": dict(workers=[1, 1], classes=[1], journaling=True,
              menu=[dict(tasks=[(1, [], 0, 0), (2, [1], 0, 0)], climit=2, max_fails=0),
                    dict(tasks=[(1, [], 0, 0)], climit=2, max_fails=-1)],
              losses=2, cancels=1, fails=1, launch_fails=0, pf_reserve=0, pf_max=0, modes=["eager"], tier="thorough"),
    # simulation only (no exhaustive run): three workers, two classes, three jobs, every kind of fault
    "S1": dict(workers=[2, 1, 1], classes=[1, 2],
               menu=[dict(tasks=[(1, [], 0, 0), (2, [], 1, 0), (3, [1], 0, 0), (4, [1, 2], 0, 1), (5, [], 0, 0)], climit=2, max_fails=-1),
                     dict(tasks=[(1, [], 0, 2), (2, [], 0, 2), (3, [2], 1, 2)], climit=1, max_fails=1),
                     dict(tasks=[(1, [], 1, 1), (2, [], 0, 1)], climit=-1, max_fails=0)],
               losses=2, cancels=2, fails=2, launch_fails=1, pf_reserve=0, pf_max=2, modes=[], tier="sim"),
    # one worker whose backlog holds tasks of two jobs; call-back by a higher-priority job; cancels in flight
    "S3": dict(workers=[1], classes=[1],
               menu=[dict(tasks=[(1, [], 0, 0), (2, [], 0, 0)], climit=0, max_fails=-1),
                     dict(tasks=[(1, [], 0, 0), (2, [], 0, 0), (3, [], 0, 0)], climit=0, max_fails=-1),
                     dict(tasks=[(1, [], 0, 9)], climit=0, max_fails=-1),
                     dict(tasks=[(1, [], 0, 9)], climit=0, max_fails=-1)],
               losses=0, cancels=2, fails=1, launch_fails=0, pf_reserve=0, pf_max=2, modes=[], tier="sim"),
    # a class with two variants of different size on one 4-cpu worker, pre-sent tasks, call-backs
    "V": dict(workers=[4], classes=[("var", [1, 3]), 1, 2, 3],   # (identical requests would be merged into one class by the server)
              menu=[dict(tasks=[(1, [], 0, 0), (2, [], 0, 0), (3, [], 0, 0), (4, [], 0, 0)], climit=0, max_fails=-1),
                    dict(tasks=[(1, [], 1, 0)], climit=0, max_fails=-1),
                    dict(tasks=[(1, [], 2, 9)], climit=0, max_fails=-1),
                    dict(tasks=[(1, [], 3, 0)], climit=0, max_fails=-1)],
              losses=0, cancels=1, fails=0, launch_fails=0, pf_reserve=0, pf_max=2, modes=[], tier="sim"),
    "S2": dict(workers=[1, 1], classes=[1],
               menu=[dict(tasks=[(1, [], 0, 0), (2, [], 0, 0), (3, [], 0, 0), (4, [], 0, 0), (5, [], 0, 0), (6, [5], 0, 0)], climit=0, max_fails=-1),
                     dict(tasks=[(1, [], 0, 5), (2, [], 0, 5)], climit=0, max_fails=-1),
                     dict(tasks=[(1, [], 0, 0)], climit=0, max_fails=-1)],
               losses=1, cancels=2, fails=1, launch_fails=0, pf_reserve=0, pf_max=2, modes=[], tier="sim"),
}

INVARIANTS = [
    "NoPanic",
    "C01_OutcomeOnce", "C01_FinishAfterStart", "C01_FinishedRan", "C01_JobAgrees",
    "C02_Registry", "C02_ClosedJobsComplete",
    "C03_NeverStartedAfterFailedDepModLate", "C03_PropagateAtRestModLate", "C03_Unaffected",
    "C04_RunningExclusive", "C04_RunningExact",
    "C05_NoOverbookModHandover", "C05_PlacedCapable",
    "C06_OneExecution", "C06_InstMonotone",
    "C07_CrashBounds", "C07_FailOnlyAtLimit", "C07_LimitReachedFails",
    "C08_NoReportAfterAck", "C08_Released", "C08_StopSent", "C08_NoDangling",
    "C13_CountersMatch", "C13_CompletedOnce",
    "C14_AbortAllOnExceed", "C14_ExceededStopped", "C14_NoAbortWithin",
    "C05_MnExclusive", "C05_MnWorkersIdle",
]
JOURNAL_INV = ["J_RestoreSucceeds", "J_OutcomesRestored", "J_InstFresh", "J_CrashKept", "J_DepsConsistent", "J_PruneKeepsRestore", "J_PruneIdempotent"]
EAGER_ONLY = ["C01_OutcomeAtRest", "C02_QuiescentOk", "C08_OthersNotStuck"]
STEP_PROPS = ["C03_NoEarlyStartStep", "C08_NoStartAfterCancelSeenStep", "C06_NoStartAfterGiveBackStep", "C06_StartedIsRealStep"]


# temporal liveness (spec/HQLive.tla): instance -> tier from which it is checked
LIVE = {"C": "quick", "N2": "quick", "B": "thorough", "R": "thorough"}
LIVE_PROPS = ["L_ComesToRest", "L_RetractResolves", "L_AssignedMoves"]


def tla_set(xs):
    return "{" + ", ".join(str(x) for x in xs) + "}"


def instance_tla(name, inst):
    ws = " @@ ".join(f"({i + 1} :> {c * 10000})" for i, c in enumerate(inst["workers"]))
    groups = inst.get("groups") or ["default"] * len(inst["workers"])
    gs = " @@ ".join(f'({i + 1} :> "{g}")' for i, g in enumerate(groups))
    def cls_tla(c):
        if isinstance(c, tuple) and c[0] == "mn":
            return f"Mn({c[1]})"
        if isinstance(c, tuple) and c[0] == "var":
            return " \\o ".join(f"Cpu({a * 10000})" for a in c[1])
        if isinstance(c, tuple) and c[0] == "time":
            return f"CpuT({c[1] * 10000}, {c[2]})"
        return f"Cpu({c * 10000})"
    cls = ", ".join(cls_tla(c) for c in inst["classes"])
    menu = []
    for j, s in enumerate(inst["menu"]):
        ts = ", ".join(f"T({t[0]}, {tla_set(t[1])}, {t[2]}, {t[3]})" for t in s["tasks"])
        menu.append(f"S({s.get('job', j + 1)}, <<{ts}>>, {s['climit']}, {s['max_fails']}, {s.get('tlimit', 0)})")
    op = inst.get("open_jobs") or {}
    ops = " @@ ".join(f"({j} :> {mf})" for j, mf in sorted(op.items())) or "<<>>"
    life = inst.get("life") or [-1] * len(inst["workers"])
    ls = " @@ ".join(f"({i + 1} :> {l})" for i, l in enumerate(life))
    return (f"{name}_Late == {tla_set(inst.get('late') or [])}\n{name}_Workers == {ws}\n{name}_Life == {ls}\n{name}_Groups == {gs}\n{name}_Classes == <<{cls}>>\n{name}_Open == {ops}\n{name}_Menu == << " + ",\n             ".join(menu) + " >>\n")


def cfg_text(name, inst, mode, spec="Spec", extra_inv=()):
    inv = INVARIANTS + (EAGER_ONLY if mode == "eager" else []) + (JOURNAL_INV if inst.get("journaling") else []) + list(extra_inv)
    lines = [f"SPECIFICATION {spec}", "CONSTANTS",
             f"  WorkerCpus <- {name}_Workers", f"  LateWorkers <- {name}_Late", f"  WorkerGroup <- {name}_Groups", f"  WorkerLife <- {name}_Life", f"  MaxTicks = {inst.get('ticks', 0)}", f"  Menu <- {name}_Menu", f"  OpenJobs <- {name}_Open", f"  Classes <- {name}_Classes",
             f"  MaxLosses = {inst['losses']}", f"  MaxCancels = {inst['cancels']}", f"  MaxFails = {inst['fails']}",
             f"  MaxLaunchFails = {inst['launch_fails']}", f"  PfReserve = {inst['pf_reserve']}", f"  PfMax = {inst['pf_max']}",
             f"  Eager = {'TRUE' if mode == 'eager' else 'FALSE'}", f"  Journaling = {'TRUE' if inst.get('journaling') else 'FALSE'}", f"  SlowStop = {'TRUE' if inst.get('slow_stop') else 'FALSE'}",
             "CHECK_DEADLOCK FALSE"]
    if inv:
        lines += ["INVARIANTS"] + ["  " + i for i in inv]
    if spec == "Spec":
        lines += ["PROPERTIES", "  StepProps"]
    return "\n".join(lines) + "\n"


def generate():
    out = ["------------------------------- MODULE MC_HQ -------------------------------",
           "(* Model-checking instances of HQModel - GENERATED by lib/hq_model.py from INSTANCES (python3 lib/hq_model.py gen). *)",
           "(* Amounts are in 1/10000 units as in the code; task = (id, deps, class, priority); submit = (job, tasks,        *)",
           "(* crash limit (-1 never restart, 0 unlimited), job failure limit (-1 none)).                                   *)",
           "EXTENDS HQModel", "",
           "Cpu(a) == <<[n_nodes |-> 0, entries |-> <<[r |-> 0, amount |-> a]>>, min_time |-> 0]>>",
           "Mn(k) == <<[n_nodes |-> k, entries |-> <<>>, min_time |-> 0]>>",
           "T(id, deps, rq, prio) == [id |-> id, deps |-> deps, rq |-> rq, prio |-> prio]",
           "S(jb, ts, climit, maxFails, tl) == [job |-> jb, tasks |-> ts, climit |-> climit, maxFails |-> maxFails, tlimit |-> tl]",
           "CpuT(a, mt) == <<[n_nodes |-> 0, entries |-> <<[r |-> 0, amount |-> a]>>, min_time |-> mt]>>", ""]
    for name, inst in INSTANCES.items():
        out.append(instance_tla(name, inst))
    out.append("=============================================================================")
    open(os.path.join(SPEC, "MC_HQ.tla"), "w").write("\n".join(out) + "\n")
    for f in os.listdir(SPEC):
        if re.match(r"MC_HQ_\w+\.cfg$", f):
            os.remove(os.path.join(SPEC, f))
    for name, inst in INSTANCES.items():
        for mode in inst["modes"]:
            open(os.path.join(SPEC, f"MC_HQ_{name}_{mode}.cfg"), "w").write(cfg_text(name, inst, mode))
        open(os.path.join(SPEC, f"MC_HQSim_{name}.cfg"), "w").write(cfg_text(name, inst, "any", spec="SimSpec").replace(
            "INVARIANTS\n", "INVARIANTS\n") )
    for f in os.listdir(SPEC):
        if re.match(r"HQLive_\w+\.cfg$", f):
            os.remove(os.path.join(SPEC, f))
    for name, tier in LIVE.items():
        inst = INSTANCES[name]
        mode = "eager" if "eager" in inst["modes"] else "any"
        base = cfg_text(name, inst, mode, spec="FairSpec", extra_inv=()).split("INVARIANTS")[0]
        open(os.path.join(SPEC, f"HQLive_{name}.cfg"), "w").write(base + "PROPERTIES\n" + "".join(f"  {p}\n" for p in LIVE_PROPS))
    # anti-vacuity: without fairness the same property must be refuted (the behaviour that simply stops with work in flight)
    c = cfg_text("C", INSTANCES["C"], "eager", spec="Spec").split("INVARIANTS")[0]
    open(os.path.join(SPEC, "HQLive_unfair.cfg"), "w").write(c + "PROPERTIES\n  L_ComesToRest\n")


def profile_of(name):
    inst = INSTANCES[name]
    groups = inst.get("groups") or [""] * len(inst["workers"])
    life = [max(l, 0) for l in (inst.get("life") or [-1] * len(inst["workers"]))]
    kinds = sorted(set(zip(inst["workers"], groups, life)))
    return {
        "name": "model" + name, "journal": True, "manual_flush": False, "reserve": inst["pf_reserve"], "pf_max": inst["pf_max"],
        "worker_kinds": [{"cpus": c, "gpus": 0, "group": g, "time_limit": l} for c, g, l in kinds],
        "initial_workers": [kinds.index(cg) for i, cg in enumerate(zip(inst["workers"], groups, life)) if i + 1 not in (inst.get("late") or [])],
        "max_connects": len(inst.get("late") or []),
        "classes": [({"variants": [{"cpus": 0, "gpus": 0, "min_time": 0}], "n_nodes": c[1]} if isinstance(c, tuple) and c[0] == "mn"
                     else {"variants": [{"cpus": c[1] * 10000, "gpus": 0, "min_time": c[2]}], "n_nodes": 0} if isinstance(c, tuple) and c[0] == "time"
                     else {"variants": [{"cpus": a * 10000, "gpus": 0, "min_time": 0} for a in c[1]], "n_nodes": 0} if isinstance(c, tuple)
                     else {"variants": [{"cpus": c * 10000, "gpus": 0, "min_time": 0}], "n_nodes": 0}) for c in inst["classes"]],
        "submits": [{"into_open": bool((inst.get("open_jobs") or {}).get(s.get("job"), None) is not None) if s.get("job") in (inst.get("open_jobs") or {}) else False, "ids": [], "entries": 0,
                     "graph": [{"id": t[0], "deps": list(t[1]), "class": t[2], "prio": t[3]} for t in s["tasks"]],
                     "class": 0, "prio": 0, "crash_limit": s["climit"], "time_limit": s.get("tlimit", 0), "max_fails": s["max_fails"], "stream": False}
                    for s in inst["menu"]],
        "max_submits": len(inst["menu"]), "opens": len(inst.get("open_jobs") or {}), "losses": inst["losses"], "cancels": inst["cancels"], "fails": inst["fails"],
        "launch_fails": inst["launch_fails"], "stops": 0, "ticks": inst.get("ticks", 0), "forgets": 0, "drain": True, "prunes": 0, "queue_events": 0, "slow_stop": bool(inst.get("slow_stop")),
    }


def late_kinds(name):
    """model worker id -> index of its kind in the harness profile, for the workers that arrive late"""
    inst = INSTANCES[name]
    groups = inst.get("groups") or [""] * len(inst["workers"])
    life = [max(l, 0) for l in (inst.get("life") or [-1] * len(inst["workers"]))]
    kinds = sorted(set(zip(inst["workers"], groups, life)))
    return {i + 1: kinds.index(cg) for i, cg in enumerate(zip(inst["workers"], groups, life)) if i + 1 in (inst.get("late") or [])}


def spec_hash(cfg):
    h = hashlib.sha256()
    for f in ("HQ.tla", "HQModel.tla", "MC_HQ.tla", cfg):
        h.update(open(os.path.join(SPEC, f), "rb").read())
    return h.hexdigest()[:20]


def model_check_one(name, mode, workers=8, timeout=3600):
    cfg = f"MC_HQ_{name}_{mode}.cfg"
    cache_dir = os.path.join(common.WORK, "mc_cache")
    os.makedirs(cache_dir, exist_ok=True)
    key = os.path.join(cache_dir, f"{name}_{mode}_{spec_hash(cfg)}.json")
    if os.path.exists(key):
        r = json.load(open(key))
        r["cached"] = True
        return r
    work = common.scratch()
    try:
        # an instance with `stop_after` is explored breadth first for that many seconds only (TLC stops by itself and reports)
        stop = INSTANCES[name].get("stop_after")
        out = common.tlc("MC_HQ.tla", cfg, work, workers=workers, timeout=timeout, xmx="14g", deque=False,
                         env={"JAVA_TOOL_OPTIONS": f"-Xss1g -Dtlc2.TLC.stopAfter={stop}"} if stop else None)
        distinct, gen = common.tlc_stats(out)
        m = re.search(r"The depth of the complete state graph search is (\d+)", out)
        ok = "Model checking completed. No error has been found." in out
        bounded = bool(stop) and not ok and not re.search(r"Error: (?:Invariant|Action property)", out) and distinct > 0
        violated = re.findall(r"Error: (?:Invariant|Action property) (\w+) is violated", out)
        r = {"instance": name, "mode": mode, "cfg": cfg, "distinct_states": distinct, "states_generated": gen,
             "depth": int(m.group(1)) if m else None, "completed": ok, "violated": violated, "cached": False,
             "constants": {k: INSTANCES[name][k] for k in ("workers", "classes", "losses", "cancels", "fails", "launch_fails", "pf_reserve", "pf_max")},
             "menu": INSTANCES[name]["menu"],
             "cmd": f"tlc -workers {workers} -config {cfg} MC_HQ.tla"}
        r["time_bounded"] = bounded
        if not ok and not violated and not bounded:
            raise common.ToolError("model checking did not complete: " + out[-3000:])
        if violated:
            r["counterexample"] = counterexample_actions(out)
        json.dump(r, open(key, "w"))
        return r
    finally:
        shutil.rmtree(work, ignore_errors=True)


def counterexample_actions(out):
    """action names of a TLC counterexample (used to replay it against the real code)."""
    return re.findall(r"^State \d+: <(\w+)", out, re.M)


def model_check(tier):
    res = []
    for name, inst in INSTANCES.items():
        if inst["tier"] == "sim" or (tier == "quick" and inst["tier"] != "quick"):
            continue
        for mode in inst["modes"]:
            res.append(model_check_one(name, mode))
    return res


def liveness_check(tier):
    """TLC temporal checking of spec/HQLive.tla under weak fairness of the system's own steps (cached like model_check)."""
    deps = ["HQ.tla", "HQModel.tla", "MC_HQ.tla"]
    res = [common.model_check_cached("HQLive.tla", f"HQLive_{n}.cfg", deps, workers=6, timeout=3 * 3600)
           for n, t in LIVE.items() if t == "quick" or tier == "thorough"]
    for r in res:
        r["properties"] = LIVE_PROPS
        r["fairness"] = "WF_mvars(SystemStep)"
    work = common.scratch()
    try:
        out = common.tlc("HQLive.tla", "HQLive_unfair.cfg", work, workers=4, timeout=900, deque=False)
    finally:
        shutil.rmtree(work, ignore_errors=True)
    if not re.search(r"Temporal propert(?:y L_ComesToRest was|ies were) violated", out):
        raise common.ToolError("L_ComesToRest is not refuted without fairness (HQLive_unfair.cfg): the liveness check is vacuous\n" + out[-2000:])
    return res, True


LAST_ACT = re.compile(r"^/\\ lastAct = (\[.*\])\s*$", re.M)


def parse_act(txt):
    d = {}
    for k, v in re.findall(r"(\w+) \|-> (\"[^\"]*\"|-?\d+|TRUE|FALSE)", txt):
        if v.startswith('"'):
            d[k] = v[1:-1]
        elif v in ("TRUE", "FALSE"):
            d[k] = v == "TRUE"
        else:
            d[k] = int(v)
    return d


def translate(acts, name=None):
    """model actions -> harness choices; model job ids -> real job ids (assigned in submission order)."""
    jobmap = {}
    lk = late_kinds(name) if name else {}
    out = []
    for a in acts:
        c = a["c"]
        if c == "Init":
            continue
        if c == "Submit":
            jobmap[a["job"]] = len(jobmap) + 1
            out.append({"c": "Submit", "spec": a["spec"]})
        elif c == "Cancel":
            if a["job"] in jobmap:
                out.append({"c": "Cancel", "job": jobmap[a["job"]]})
        elif c == "Connect":
            out.append({"c": "Connect", "kind": lk[a["w"]]})
        elif c in ("Exit", "FailLaunch", "Die"):
            j, t = divmod(a["t"], 1000)
            if j not in jobmap:
                continue
            b = dict(a)
            b["t"] = jobmap[j] * 1000 + t
            out.append(b)
        else:
            out.append(a)
    return out


SIG = re.compile(r"^/\\ sig = (.*?)(?=^/\\ |\Z)", re.M | re.S)


def behaviours(name, num, depth, seed, workdir, with_sigs=False):
    """-> list of behaviours (each a list of harness choices) simulated by TLC from the model instance;
    with_sigs: list of (choices, [abstract signature of every step])"""
    tdir = os.path.join(workdir, f"sim-{name}")
    os.makedirs(tdir, exist_ok=True)
    cfg = os.path.join(SPEC, f"MC_HQSim_{name}.cfg")
    meta = os.path.join(workdir, f"simmeta-{name}")
    cmd = ["java", "-XX:+UseParallelGC", "-Xmx3g", "-Xss512m", "-cp", common.TLA_CP, "tlc2.TLC", "-workers", "1", "-seed", str(seed),
           "-simulate", f"file={tdir}/t,num={num}", "-depth", str(depth), "-metadir", meta, "-noGenerateSpecTE", "-config", cfg, "MC_HQSim.tla"]
    p = subprocess.run(cmd, cwd=SPEC, stdout=subprocess.PIPE, stderr=subprocess.STDOUT, text=True, timeout=7200)
    shutil.rmtree(meta, ignore_errors=True)
    if "traces generated" not in p.stdout and "Finished in" not in p.stdout:
        raise common.ToolError("simulation failed: " + p.stdout[-3000:])
    res = []
    for f in sorted(os.listdir(tdir)):
        txt = open(os.path.join(tdir, f)).read()
        acts = [parse_act(m) for m in LAST_ACT.findall(txt)]
        ch = translate(acts, name)
        if ch:
            if with_sigs:
                sigs = [" ".join(m.split()) for m in SIG.findall(txt)]
                res.append((ch, sigs))
            else:
                res.append(ch)
    shutil.rmtree(tdir, ignore_errors=True)
    return res


def select_covering(behs, k=4, cap=400):
    """greedy choice of behaviours so that every step signature seen is covered k times (or as often as it occurs)"""
    total = {}
    for _, sigs in behs:
        for x in set(sigs):
            total[x] = total.get(x, 0) + 1
    have = {}
    chosen = []
    # rare signatures first
    order = sorted(range(len(behs)), key=lambda i: min((total[x] for x in behs[i][1]), default=10**9))
    for i in order:
        sigs = set(behs[i][1])
        if any(have.get(x, 0) < min(k, total[x]) for x in sigs):
            chosen.append(i)
            for x in sigs:
                have[x] = have.get(x, 0) + 1
        if len(chosen) >= cap:
            break
    return [behs[i][0] for i in chosen], len(total)


CORPUS = os.path.join(common.VERIF, "regress", "model")


def build_corpus(num=4000, depth=80, seed=1, k=4, only=None):
    """(re)generates the committed corpus of model behaviours: regress/model/<instance>.ndjson"""
    os.makedirs(CORPUS, exist_ok=True)
    work = common.scratch()
    summary = {}
    try:
        import concurrent.futures as cf

        def one(name):
            behs = behaviours(name, num, depth, seed, work, with_sigs=True)
            sel, nsig = select_covering(behs, k)
            with open(os.path.join(CORPUS, f"{name}.ndjson"), "w") as f:
                for b in sel:
                    f.write(json.dumps(b) + "\n")
            return name, {"simulated": len(behs), "distinct_step_signatures": nsig, "kept": len(sel)}
        with cf.ThreadPoolExecutor(max_workers=11) as ex:
            for name, r in ex.map(one, sorted(n for n in INSTANCES if not only or n in only)):
                summary[name] = r
                print(name, r, flush=True)
        sf = os.path.join(CORPUS, "SUMMARY.json")
        old = json.load(open(sf)).get("instances", {}) if os.path.exists(sf) and only else {}
        old.update(summary)
        json.dump({"num": num, "depth": depth, "seed": seed, "k": k, "instances": old}, open(sf, "w"), indent=1)
    finally:
        shutil.rmtree(work, ignore_errors=True)
    return summary


def corpus_behaviours(name):
    f = os.path.join(CORPUS, f"{name}.ndjson")
    if not os.path.exists(f):
        return []
    return [json.loads(l) for l in open(f) if l.strip()]


def guided_shard(workdir, name, behs, first_run=0, tag="sim"):
    """replays behaviours on the real code -> (trace file, choices dir, stats) like cluster_engine.gen_shard"""
    prof = os.path.join(workdir, f"profile-{name}.json")
    json.dump(profile_of(name), open(prof, "w"))
    bf = os.path.join(workdir, f"{tag}-{name}.behaviours")
    with open(bf, "w") as f:
        for b in behs:
            f.write(json.dumps(b) + "\n")
    out = os.path.join(workdir, f"{tag}-{name}.ndjson")
    cdir = os.path.join(workdir, f"{tag}-{name}.choices")
    os.makedirs(cdir, exist_ok=True)
    tmp = os.path.join(workdir, f"tmp-{tag}-{name}")
    os.makedirs(tmp, exist_ok=True)
    env = dict(os.environ)
    env["TMPDIR"] = tmp
    p = subprocess.run([common.HQV, "cluster", "guided", "--profile-file", prof, "--file", bf, "--out", out, "--choices-dir", cdir,
                        "--first-run", str(first_run)], env=env, stdout=subprocess.PIPE, stderr=subprocess.PIPE, text=True, timeout=1800)
    shutil.rmtree(tmp, ignore_errors=True)
    if p.returncode != 0:
        raise common.ToolError(f"guided replay failed on {name}: {p.stderr[-2000:]}")
    return out, cdir, json.loads(p.stderr.strip().splitlines()[-1])


if __name__ == "__main__":
    if sys.argv[1:] == ["gen"]:
        generate()
        print("generated")
    elif sys.argv[1:2] == ["corpus"]:
        build_corpus(*[int(x) for x in sys.argv[2:6]], only=sys.argv[6:] or None)
    elif sys.argv[1:2] == ["mc"]:
        for r in model_check(sys.argv[2] if len(sys.argv) > 2 else "thorough"):
            print(json.dumps({k: r[k] for k in ("instance", "mode", "distinct_states", "states_generated", "depth", "completed", "violated", "cached")}))
