"""Engine for C17 and C18 (automatic allocation).

The real autoalloc state machine (handle_message / perform_submits / do_periodic_update / remove_queue, reached through the
feature-guarded SimAutoAlloc hook) is driven by a seeded environment: demand from real waiting tasks in a real core, submission
results and external status reports dictated through a mock QueueHandler (also contradictory ones), worker connect/loss
notifications in arbitrary orders from a small id pool (duplicates, loss before connect, extras), pause/resume/remove requests and
virtual time.  TLC evaluates the formulas of spec/AutoAllocTrace.tla (model functions and state predicates of spec/AutoAlloc.tla)
on every step of every run.
"""
import concurrent.futures as cf
import json
import os
import shutil
import subprocess

import common

BUDGET = {"quick": (120, 10, 90), "thorough": (300, 48, 140)}  # runs per shard, shards, steps


def gen(args):
    workdir, shard, runs, steps, seed = args
    out = os.path.join(workdir, f"aa-{shard}.ndjson")
    p = subprocess.run([common.HQV, "autoalloc", "--runs", str(runs), "--steps", str(steps + (shard % 3) * 20), "--first-run", str(shard * runs),
                        "--seed", str(seed * 1000 + shard), "--out", out], stdout=subprocess.PIPE, stderr=subprocess.PIPE, text=True, timeout=3600)
    if p.returncode != 0:
        raise common.ToolError("autoalloc harness failed: " + p.stderr[-2000:])
    return out, json.loads(p.stderr.strip().splitlines()[-1])


def validate(args):
    workdir, trace = args
    out = common.tlc("AutoAllocTrace.tla", "AutoAllocTrace.cfg", workdir, env={"TRACE": trace}, workers=1, timeout=3600, xmx="4g")
    verdict = common.tlc_printed(out, "VERDICT")
    viols = common.tlc_printed(out, "VIOL")
    if not verdict or "Model checking completed. No error has been found." not in out or verdict[-1]["diameter"] - 1 != verdict[-1]["lines"]:
        raise common.ToolError("autoalloc trace validation did not complete:\n" + out[-3000:])
    states, gen_ = common.tlc_stats(out)
    return viols[-1] if viols else [], states, gen_


def run(pid, tier, seed):
    common.build_harness()
    work = common.scratch()
    try:
        runs, shards, steps = BUDGET[tier]
        with cf.ThreadPoolExecutor(max_workers=max(2, common.NCPU - 2)) as ex:
            gens = list(ex.map(gen, [(work, s, runs, steps, seed) for s in range(shards)]))
        with cf.ThreadPoolExecutor(max_workers=max(2, common.NCPU // 2)) as ex:
            results = list(ex.map(validate, [(work, g[0]) for g in gens]))
        violations = []
        others = {}
        actions = {}
        for (trace, _), (vs, _, _) in zip(gens, results):
            first = {}
            for v in sorted(vs, key=lambda v: (v["run"], v["i"])):
                first.setdefault((v["p"], v["run"]), v)
            need = {}
            for (formula, r), v in first.items():
                prop = formula.split("_")[0]
                if prop != pid:
                    others[formula] = others.get(formula, 0) + 1
                    continue
                need[(r, v["i"])] = formula
            with open(trace) as f:
                runlines = {}
                for line in f:
                    k = line.find('"a":"')
                    a = line[k + 5:line.find('"', k + 5)]
                    actions[a] = actions.get(a, 0) + 1
                    if need:
                        d = json.loads(line)
                        runlines.setdefault(d["run"], []).append(d)
            for (r, i), formula in sorted(need.items()):
                lines = [d for d in runlines.get(r, []) if d["i"] <= i]
                cur = lines[-1] if lines else {}
                sig = f"{formula}@{cur.get('a')}"
                violations.append({"formula": formula, "signature": sig,
                                   "replay": {"engine": "autoalloc", "history": [{k: d[k] for k in ("i", "a", "args", "demand", "calls", "ev")} for d in lines[-25:]],
                                              "state": cur.get("st")},
                                   "detail": f"run {r} step {i} action {cur.get('a')} args {json.dumps(cur.get('args'))[:200]}"})
        sample = []
        with open(gens[0][0]) as f:
            for k, line in enumerate(f):
                d = json.loads(line)
                sample.append({kk: d[kk] for kk in ("i", "a", "args", "demand", "calls", "ev")})
                if k >= 14:
                    break
        mc = common.model_check_cached("MC_AutoAlloc.tla", "MC_AutoAlloc.cfg", ["AutoAlloc.tla"])
        if tier == "thorough":
            # the same queue with multi-node demand as well (1.4 M states)
            mc["with_multi_node_demand"] = common.model_check_cached("MC_AutoAlloc.tla", "MC_AutoAlloc_mn.cfg", ["AutoAlloc.tla"], timeout=3 * 3600)
        mc["invariants_of_this_property"] = [f for f in ("C17_BacklogBound", "C17_WorkerBound", "C17_AllocSize", "C17_BackoffCoversFailures", "C17_SubmitOnlyWhenAllowed", "C17_ResumeHasEffect",
                                                           "C18_RunningShape", "C18_FinishedShape", "C18_StartEndOnce", "C18_ConnectedExact", "C18_Monotone") if f.startswith(pid)]
        mc["constants"] = "1 queue, backlog 2, max 2 workers/allocation, worker limit 3, 2 allocations, 2 worker ids, demand 0..2, time 0..2, fail limits 2/2"
        coverage = {"mc": mc, "states": sum(r[1] for r in results), "transitions": sum(r[2] for r in results),
                    "traces_validated_against_impl": sum(g[1]["runs"] for g in gens), "samples": [{"steps_of_one_real_run": sample}],
                    "steps": sum(g[1]["steps"] for g in gens), "actions_covered": actions,
                    "violated_formulas_of_other_properties_seen": others,
                    "checker_cmd": "tlc -workers 1 -config AutoAllocTrace.cfg AutoAllocTrace.tla (TRACE=<shard>); tlc -workers 8 -config MC_AutoAlloc.cfg MC_AutoAlloc.tla"}
        return {"level": "model_checking", "coverage": coverage, "violations": violations,
                "assumptions": ["mock QueueHandler (submission results, status reports, cancellations are environment inputs)",
                                "rate limiter constants injected (delays 0/1/2 units, 2 submission fails, 2 allocation fails); virtual time through RateLimiter::verif_shift",
                                "the event loop of autoalloc_process (tokio intervals) is replaced by explicit tick / refresh steps"]}
    finally:
        shutil.rmtree(work, ignore_errors=True)
