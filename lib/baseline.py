#!/usr/bin/env python3
"""Runs the repository's own test suite with the verification guard OFF and compares with BASELINE.json:
every test of `stable_pass` must pass.  Exit 0 iff so."""
import json, re, subprocess, sys
base = json.load(open('/root/.vp/BASELINE.json'))
stable = set(base['stable_pass'])
p = subprocess.run(['cargo', 'test', '--workspace', '--no-fail-fast', '--offline'], cwd='/repo', stdout=subprocess.PIPE,
                   stderr=subprocess.STDOUT, text=True)
crate = None
passed, failed = set(), set()
for line in p.stdout.splitlines():
    m = re.search(r'Running (?:unittests )?\S+ \(target/debug/deps/([a-zA-Z0-9_]+)-[0-9a-f]+\)', line)
    if m:
        crate = m.group(1)
    m = re.match(r'test (\S+)(?: - should panic)? \.\.\. (ok|FAILED|ignored)', line)
    if m and crate:
        name = f'{crate}::{m.group(1)}'
        (passed if m.group(2) == 'ok' else failed).add(name)
missing = sorted(stable - passed)
print(json.dumps({'passed': len(passed), 'failed': len(failed), 'stable': len(stable), 'stable_not_passed': missing[:20]}))
sys.exit(0 if not missing else 1)
