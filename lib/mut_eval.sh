#!/bin/sh
# usage: mut_eval.sh <seeded-id> <property> [tier]   - applies the seeded change to /repo, runs the check, undoes it
id=$1; pid=$2; tier=${3:-quick}
cd /verif
git -C /repo diff --quiet || { echo "/repo is not clean"; exit 2; }
git -C /repo apply /verif/seeded/$id/patch.diff || { echo "patch does not apply"; exit 2; }
VERIF_SEED=${VERIF_SEED:-1} ./check $pid $tier > work/mut-$id-$pid-$tier.out 2>&1
rc=$?
git -C /repo checkout -- .
# the evidence written by a run against a changed tree must never be committed
git -C /verif checkout -- evidence/ 2>/dev/null
echo "mutation $id check $pid $tier exit=$rc"
grep -E "^(VIOLATION|KNOWN-FINDING|OK|CONFORMANCE|  formula)" work/mut-$id-$pid-$tier.out | cut -c1-300
exit 0
