"""Shared plumbing: paths, harness build, TLC runner, known findings, evidence writer."""
import hashlib
import json
import os
import re
import shutil
import subprocess
import sys
import tempfile
import time

VERIF = os.path.dirname(os.path.dirname(os.path.abspath(__file__)))
SPEC = os.path.join(VERIF, "spec")
HARNESS = os.path.join(VERIF, "harness")
HQV = os.path.join(HARNESS, "target", "debug", "hqv")
EVIDENCE = os.path.join(VERIF, "evidence")
REPLAYS = os.path.join(VERIF, "replays")
WORK = os.path.join(VERIF, "work")
TLA_CP = "/opt/veriftools/tla/tla2tools.jar:/opt/veriftools/tla/CommunityModules-deps.jar"
NCPU = os.cpu_count() or 8

CLUSTER = ["C01", "C02", "C03", "C05", "C06", "C07", "C08", "C09", "C13", "C14"]
ENGINES = {p: "cluster_engine" for p in CLUSTER}
ENGINES.update({"C20": "auth_engine", "C19": "stream_engine", "C17": "autoalloc_engine", "C18": "autoalloc_engine", "C15": "sched_engine"})
ENGINES.update({"C04": "alloc_engine", "C16": "alloc_engine"})
ENGINES.update({"C10": "journal_engine", "C11": "journal_engine", "C12": "journal_engine"})


class ToolError(Exception):
    pass


def registered():
    m = json.load(open(os.path.join(VERIF, "MANIFEST.json")))
    return [c["property_id"] for c in m["checks"]]


def engine_for(pid):
    return ENGINES.get(pid)


def scratch():
    base = os.environ.get("VERIF_SCRATCH") or tempfile.gettempdir()
    d = tempfile.mkdtemp(prefix="hqverif-", dir=base)
    return d


def sh(cmd, cwd=None, env=None, timeout=None, check=True):
    e = dict(os.environ)
    e.setdefault("CARGO_NET_OFFLINE", "true")
    if env:
        e.update(env)
    p = subprocess.run(cmd, cwd=cwd, env=e, timeout=timeout, stdout=subprocess.PIPE, stderr=subprocess.STDOUT, text=True)
    if check and p.returncode != 0:
        raise ToolError(f"command failed ({p.returncode}): {' '.join(cmd)}\n{p.stdout[-3000:]}")
    return p


_built = False


def build_harness():
    """(Re)build the harness against the current /repo working tree with the hooks enabled."""
    global _built
    if _built:
        return
    lock = os.path.join(HARNESS, "Cargo.lock")
    if not os.path.exists(lock):
        shutil.copy("/repo/Cargo.lock", lock)
    p = sh(["cargo", "build", "--offline"], cwd=HARNESS, timeout=3600, check=False)
    if p.returncode != 0:
        raise ToolError("harness build failed:\n" + p.stdout[-4000:])
    _built = True


def setup():
    try:
        build_harness()
        for f in sorted(os.listdir(SPEC)):
            if f.endswith(".tla"):
                p = sh(["java", "-cp", TLA_CP, "tla2sany.SANY", f], cwd=SPEC, timeout=300, check=False)
                if "Semantic errors" in p.stdout or "Parse Error" in p.stdout or "Fatal errors" in p.stdout or p.returncode != 0:
                    print(p.stdout[-2000:])
                    raise ToolError(f"SANY rejected {f}")
        print("setup ok")
        return 0
    except ToolError as e:
        print("setup failed:", e)
        return 2


def tlc(module, cfg, workdir, env=None, workers=1, timeout=1800, xmx="2g", extra=None, deque=True, cwd=None):
    """Runs TLC; returns its stdout. Raises ToolError on crash/timeout (not on property violations)."""
    meta = tempfile.mkdtemp(prefix="tlcmeta-", dir=workdir)
    e = {"JAVA_TOOL_OPTIONS": "-Xss1g" + (" -Dtlc2.tool.queue.IStateQueue=StateDeque" if deque else "")}
    if env:
        e.update(env)
    cmd = ["java", "-XX:+UseParallelGC", f"-Xmx{xmx}", "-cp", TLA_CP, "tlc2.TLC", "-workers", str(workers),
           "-metadir", meta, "-cleanup", "-noGenerateSpecTE", "-config", cfg] + (extra or []) + [module]
    try:
        p = sh(cmd, cwd=cwd or SPEC, env=e, timeout=timeout, check=False)
    except subprocess.TimeoutExpired:
        raise ToolError(f"TLC timeout on {module}/{cfg}")
    finally:
        shutil.rmtree(meta, ignore_errors=True)
    return p.stdout


def tlc_stats(out):
    m = re.search(r"(\d+) states generated, (\d+) distinct states found", out)
    if not m:
        return 0, 0
    return int(m.group(2)), int(m.group(1))


def tlc_printed(out, tag):
    """Values printed by PrintT(<<tag, json-string>>)."""
    res = []
    for line in out.splitlines():
        if line.startswith(f'<<"{tag}", "'):
            m = re.match(r'<<"%s", "(.*)">>\s*$' % tag, line)
            if m:
                raw = m.group(1).replace('\\"', '"').replace("\\\\", "\\")
                try:
                    res.append(json.loads(raw))
                except Exception:
                    res.append(json.loads(m.group(1).encode().decode("unicode_escape")))
    return res


def model_check_cached(module, cfg, deps, workers=8, timeout=3600, xmx="12g"):
    """Exhaustive TLC run of a design model (independent of /repo); cached in work/mc_cache by the hash of the spec files.
    -> dict(distinct_states, states_generated, depth, completed, violated, cached, cmd). Raises ToolError if the model is violated."""
    h = hashlib.sha256()
    for f in list(deps) + [module, cfg]:
        h.update(open(os.path.join(SPEC, f), "rb").read())
    cache_dir = os.path.join(WORK, "mc_cache")
    os.makedirs(cache_dir, exist_ok=True)
    key = os.path.join(cache_dir, f"{cfg.replace('.cfg', '')}_{h.hexdigest()[:20]}.json")
    if os.path.exists(key):
        r = json.load(open(key))
        r["cached"] = True
        return r
    work = scratch()
    try:
        out = tlc(module, cfg, work, workers=workers, timeout=timeout, xmx=xmx, deque=False)
    finally:
        shutil.rmtree(work, ignore_errors=True)
    distinct, gen = tlc_stats(out)
    m = re.search(r"The depth of the complete state graph search is (\d+)", out)
    ok = "Model checking completed. No error has been found." in out
    violated = re.findall(r"Error: (?:Invariant|Action property|Temporal propert(?:y|ies)) ?(\w*) (?:is|was|were) violated", out)
    r = {"module": module, "cfg": cfg, "distinct_states": distinct, "states_generated": gen, "depth": int(m.group(1)) if m else None,
         "completed": ok, "violated": violated, "cached": False, "cmd": f"tlc -workers {workers} -config {cfg} {module}"}
    if not ok:
        raise ToolError(f"the model {module}/{cfg} is violated or did not complete ({violated}): the specification needs attention "
                        f"(not a verdict about the code)\n" + out[-2500:])
    json.dump(r, open(key, "w"))
    return r


# ------------------------------------------------------------------------------------------
# known findings
# ------------------------------------------------------------------------------------------

def known_findings():
    p = os.path.join(VERIF, "known_findings.json")
    if not os.path.exists(p):
        return []
    return json.load(open(p))["findings"]


def finish(pid, tier, seed, result, wall):
    """Prints KNOWN-FINDING / VIOLATION lines, writes the evidence file, returns the exit code."""
    known = {(f["property"], f["signature"]): f for f in known_findings() if f.get("status") == "known"}
    new = []
    seen_known = {}
    for v in result.get("violations", []):
        key = (pid, v["signature"])
        if key in known:
            seen_known.setdefault(v["signature"], 0)
            seen_known[v["signature"]] += 1
        else:
            new.append(v)
    for sig, n in sorted(seen_known.items()):
        print(f"KNOWN-FINDING: property={pid} {sig} ({n} occurrence(s) in this run) - {known[(pid, sig)]['what']}")
    # one VIOLATION line per distinct new signature
    os.makedirs(REPLAYS, exist_ok=True)
    by_sig = {}
    for v in new:
        by_sig.setdefault(v["signature"], []).append(v)
    for sig, vs in sorted(by_sig.items()):
        v = vs[0]
        h = hashlib.sha1(sig.encode()).hexdigest()[:10]
        path = os.path.join(REPLAYS, f"{pid}-{h}.json")
        rep = dict(v.get("replay") or {})
        rep.update({"property": pid, "signature": sig, "formula": v.get("formula"), "detail": v.get("detail"),
                    "seed": seed, "tier": tier, "occurrences": len(vs)})
        with open(path, "w") as f:
            json.dump(rep, f)
        print(f"VIOLATION property={pid} replay={path}")
        print(f"  formula={v.get('formula')} signature={sig} occurrences={len(vs)} detail={v.get('detail')}")
    cov = dict(result.get("coverage", {}))
    cov.setdefault("samples", [])
    cov["known_findings_seen"] = seen_known
    ev = {
        "property_id": pid,
        "tier": tier,
        "seed": seed,
        "level": result.get("level", "model_checking"),
        "coverage": cov,
        "assumptions": result.get("assumptions", []),
        "wall_s": round(wall, 2),
        "violations": len(by_sig),
    }
    os.makedirs(EVIDENCE, exist_ok=True)
    with open(os.path.join(EVIDENCE, f"{pid}.json"), "w") as f:
        json.dump(ev, f, indent=1)
    if not by_sig:
        print(f"OK property={pid} tier={tier} seed={seed} wall={wall:.1f}s "
              f"states={cov.get('states')} traces={cov.get('traces_validated_against_impl')}")
    return 1 if by_sig else 0
