"""Engine for C19 (streamed output): seeded behaviours realised with the real stream writer (StreamerRef/stream_writer),
files cut after the last flush for worker crashes, read back with the real OutputLog; TLC judges every read-back against
spec/Stream.tla (ExactBytes, LastRunOnly, MarkedFinished, SupersededOk) through spec/StreamTrace.tla."""
import concurrent.futures as cf
import json
import os
import shutil
import subprocess

import common

BUDGET = {"quick": (150, 8), "thorough": (600, 40)}


def gen(args):
    workdir, shard, runs, seed = args
    out = os.path.join(workdir, f"stream-{shard}.ndjson")
    tmp = os.path.join(workdir, f"stmp-{shard}")
    os.makedirs(tmp, exist_ok=True)
    env = dict(os.environ)
    env["TMPDIR"] = tmp
    p = subprocess.run([common.HQV, "stream", "--runs", str(runs), "--first-run", str(shard * runs), "--seed", str(seed * 100 + shard), "--out", out],
                       env=env, stdout=subprocess.PIPE, stderr=subprocess.PIPE, text=True, timeout=3600)
    shutil.rmtree(tmp, ignore_errors=True)
    if p.returncode != 0:
        raise common.ToolError("stream harness failed: " + p.stderr[-2000:])
    return out, json.loads(p.stderr.strip().splitlines()[-1])


def validate(args):
    workdir, trace = args
    out = common.tlc("StreamTrace.tla", "StreamTrace.cfg", workdir, env={"TRACE": trace}, workers=1, timeout=3600)
    verdict = common.tlc_printed(out, "VERDICT")
    viols = common.tlc_printed(out, "VIOL")
    if not verdict or "Model checking completed. No error has been found." not in out or verdict[-1]["diameter"] - 1 != verdict[-1]["lines"]:
        raise common.ToolError("stream trace validation did not complete:\n" + out[-3000:])
    return viols[-1] if viols else []


def run(pid, tier, seed):
    common.build_harness()
    work = common.scratch()
    try:
        runs, shards = BUDGET[tier]
        with cf.ThreadPoolExecutor(max_workers=max(2, common.NCPU - 2)) as ex:
            gens = list(ex.map(gen, [(work, s, runs, seed) for s in range(shards)]))
        with cf.ThreadPoolExecutor(max_workers=max(2, common.NCPU // 2)) as ex:
            viols = list(ex.map(validate, [(work, g[0]) for g in gens]))
        violations = []
        for (trace, _), vs in zip(gens, viols):
            byrun = {}
            for v in vs:
                byrun.setdefault(v["run"], []).append(v["p"] + ("@step" if v.get("at") == "step" else ""))
            if not byrun:
                continue
            for line in open(trace):
                d = json.loads(line)
                if d["run"] in byrun:
                    crashed = any(e["end"] == "crashed" for e in d["execs"])
                    for fs in sorted(set(byrun[d["run"]])):
                        f = fs.split("@")[0]
                        sig = f"{fs}:{'with' if crashed else 'no'}-crash:{d['n_files']}-files"
                        violations.append({"formula": f, "signature": sig, "replay": {"engine": "stream", "behaviour": d},
                                           "detail": f"run {d['run']} execs {json.dumps(d['execs'])[:400]}"})
        sample = json.loads(open(gens[0][0]).readline())
        sample.pop("events", None)
        n_runs = sum(g[1]["runs"] for g in gens)
        coverage = {"states": n_runs, "transitions": sum(g[1]["executions"] for g in gens),
                    "traces_validated_against_impl": n_runs, "samples": [sample],
                    "behaviours": n_runs, "task_executions": sum(g[1]["executions"] for g in gens),
                    "checker_cmd": "tlc -workers 1 -config StreamTrace.cfg StreamTrace.tla (TRACE=<shard>)",
                    "explanation": "states = behaviours (sets of interleaved task executions) realised with the real writer and read with the real reader"}
        return {"level": "model_checking", "coverage": coverage, "violations": violations,
                "assumptions": ["chunks are handed to the real StreamSender directly (the process/pipe layer of program.rs is not run)",
                                "a crash cuts a writer file anywhere between its last completed flush and the bytes handed over so far",
                                "the same task never runs twice concurrently on one worker (guaranteed by the worker's running-task map)"]}
    finally:
        shutil.rmtree(work, ignore_errors=True)
