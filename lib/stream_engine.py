"""Engine for C19 (streamed output): seeded behaviours realised with the real stream writer (StreamerRef/stream_writer),
files cut after the last flush for worker crashes, read back with the real OutputLog; TLC judges every read-back against
spec/Stream.tla (ExactBytes, LastRunOnly, MarkedFinished, SupersededOk) through spec/StreamTrace.tla."""
import concurrent.futures as cf
import json
import os
import shutil
import subprocess

import common

BUDGET = {"quick": (150, 8), "thorough": (600, 40)}


def gen(args):
    workdir, shard, runs, seed = args
    out = os.path.join(workdir, f"stream-{shard}.ndjson")
    tmp = os.path.join(workdir, f"stmp-{shard}")
    os.makedirs(tmp, exist_ok=True)
    env = dict(os.environ)
    env["TMPDIR"] = tmp
    p = subprocess.run([common.HQV, "stream", "--runs", str(runs), "--first-run", str(shard * runs), "--seed", str(seed * 100 + shard), "--out", out],
                       env=env, stdout=subprocess.PIPE, stderr=subprocess.PIPE, text=True, timeout=3600)
    shutil.rmtree(tmp, ignore_errors=True)
    if p.returncode != 0:
        raise common.ToolError("stream harness failed: " + p.stderr[-2000:])
    return out, json.loads(p.stderr.strip().splitlines()[-1])


def validate(args):
    workdir, trace = args
    out = common.tlc("StreamTrace.tla", "StreamTrace.cfg", workdir, env={"TRACE": trace}, workers=1, timeout=3600)
    verdict = common.tlc_printed(out, "VERDICT")
    viols = common.tlc_printed(out, "VIOL")
    if not verdict or "Model checking completed. No error has been found." not in out or verdict[-1]["diameter"] - 1 != verdict[-1]["lines"]:
        raise common.ToolError("stream trace validation did not complete:\n" + out[-3000:])
    return viols[-1] if viols else []


def flatten(run):
    """one run of `hqv stream` (direct mode) -> one model action of StreamModel per line (see StreamModelTrace.tla)"""
    out = [{"a": "Reset", "run": run["run"], "k": 0}]
    wof = {}
    k = 0
    for st in run["steps"]:
        k += 1
        for ev in st["evs"]:
            kind = ev[0]
            if kind == "start":
                _, t, i, w = ev
                wof[(t, i)] = w
                out.append({"a": "Start", "t": t, "i": i, "w": w, "k": k})
            elif kind == "write":
                _, t, i, c, name, size = ev
                out.append({"a": "Write", "t": t, "i": i, "c": c, "n": size, "name": name, "k": k})
                out.append({"a": "Writer", "w": wof[(t, i)], "k": k})
            elif kind == "close":
                _, t, i, c = ev
                out.append({"a": "CloseChan", "t": t, "i": i, "c": c, "k": k})
                out.append({"a": "Writer", "w": wof[(t, i)], "k": k})
            elif kind == "flush":
                _, t, i = ev
                out.append({"a": "EndReq", "t": t, "i": i, "k": k})
                out.append({"a": "Writer", "w": wof[(t, i)], "k": k})
            elif kind == "end":
                _, t, i, r = ev
                out.append({"a": "Abandon", "t": t, "i": i, "k": k} if r == "crashed" else {"a": "Report", "t": t, "i": i, "r": r, "k": k})
            elif kind == "crash":
                out.append({"a": "Absorb", "w": ev[1], "files": st["files"], "k": k})
                out.append({"a": "Crash", "w": ev[1], "k": k})
        if st.get("stable", True):
            out.append({"a": "Obs", "files": st["files"], "read": st["read"], "open_err": st["open_err"], "pan": st["pan"], "k": k})
    return out


def conform(args):
    """the recorded steps against the state machine StreamModel -> (lines, {divergence name: runs})"""
    workdir, trace = args
    flat = trace.replace(".ndjson", "-flat.ndjson")
    n = 0
    with open(flat, "w") as f:
        for line in open(trace):
            r = json.loads(line)
            if r.get("steps"):
                for x in flatten(r):
                    f.write(json.dumps(x) + "\n")
                    n += 1
    if n == 0:
        return 0, {}
    out = common.tlc("StreamModelTrace.tla", "StreamModelTrace.cfg", workdir, env={"TRACE": flat}, workers=1, timeout=3600)
    verdict = common.tlc_printed(out, "VERDICT")
    viols = common.tlc_printed(out, "VIOL")
    if not verdict or "Model checking completed. No error has been found." not in out or verdict[-1]["diameter"] - 1 != verdict[-1]["lines"]:
        raise common.ToolError("stream model trace validation did not complete:\n" + out[-3000:])
    div = {}
    for v in (viols[-1] if viols else []):
        div.setdefault(v["p"], set()).add(v["run"])
    return n, {k: len(v) for k, v in div.items()}


MC = {"quick": ["MC_Stream_S0.cfg"], "thorough": ["MC_Stream_S0.cfg", "MC_Stream_S1.cfg", "MC_Stream_S2.cfg"]}


def model_check(tier):
    res = [common.model_check_cached("StreamModel.tla", c, ["StreamModel.tla"], workers=8, timeout=3 * 3600) for c in MC[tier]]
    # anti-vacuity: the wrong design "flush only when nothing is queued behind the request" must be refuted by the same invariants
    work = common.scratch()
    try:
        out = common.tlc("StreamModel.tla", "MC_Stream_bad.cfg", work, workers=4, timeout=600, deque=False)
    finally:
        shutil.rmtree(work, ignore_errors=True)
    refuted = "Invariant C19_ExactBytesInOrder is violated" in out or "Invariant C19_MarkedFinished is violated" in out
    if not refuted:
        raise common.ToolError("the wrong variant of the stream design (MC_Stream_bad.cfg) is not refuted: the invariants are vacuous\n" + out[-2000:])
    return res, refuted


def run(pid, tier, seed):
    common.build_harness()
    work = common.scratch()
    try:
        runs, shards = BUDGET[tier]
        with cf.ThreadPoolExecutor(max_workers=max(2, common.NCPU - 2)) as ex:
            gens = list(ex.map(gen, [(work, s, runs, seed) for s in range(shards)]))
        with cf.ThreadPoolExecutor(max_workers=max(2, common.NCPU // 2)) as ex:
            viols = list(ex.map(validate, [(work, g[0]) for g in gens]))
            confs = list(ex.map(conform, [(work, g[0]) for g in gens]))
        mc, refuted = model_check(tier)
        divergences = {}
        for _, d in confs:
            for k, v in d.items():
                divergences[k] = divergences.get(k, 0) + v
        for k, v in sorted(divergences.items()):
            print(f"CONFORMANCE-DIVERGENCE (diagnostic, not a verdict): {k} on {v} run(s): the real stream writer / reader differs from StreamModel")
        violations = []
        for (trace, _), vs in zip(gens, viols):
            byrun = {}
            for v in vs:
                byrun.setdefault(v["run"], []).append(v["p"] + ("@step" if v.get("at") == "step" else ""))
            if not byrun:
                continue
            for line in open(trace):
                d = json.loads(line)
                if d["run"] in byrun:
                    crashed = any(e["end"] == "crashed" for e in d["execs"])
                    for fs in sorted(set(byrun[d["run"]])):
                        f = fs.split("@")[0]
                        sig = f"{fs}:{'with' if crashed else 'no'}-crash:{d['n_files']}-files"
                        violations.append({"formula": f, "signature": sig, "replay": {"engine": "stream", "behaviour": d},
                                           "detail": f"run {d['run']} execs {json.dumps(d['execs'])[:400]}"})
        sample = json.loads(open(gens[0][0]).readline())
        sample.pop("events", None)
        n_runs = sum(g[1]["runs"] for g in gens)
        coverage = {"states": n_runs, "transitions": sum(g[1]["executions"] for g in gens),
                    "traces_validated_against_impl": n_runs, "samples": [sample],
                    "behaviours": n_runs, "task_executions": sum(g[1]["executions"] for g in gens),
                    "checker_cmd": "tlc -workers 1 -config StreamTrace.cfg StreamTrace.tla (TRACE=<shard>); tlc -workers 1 -config StreamModelTrace.cfg StreamModelTrace.tla (TRACE=<shard, one model action per line>); tlc -config MC_Stream_<inst>.cfg StreamModel.tla",
                    "model_checking": mc, "wrong_design_refuted": refuted,
                    "model_action_lines_validated": sum(c[0] for c in confs), "conformance_divergences": divergences,
                    "explanation": "states = behaviours (sets of interleaved task executions) realised with the real writer and read with the real reader"}
        return {"level": "model_checking", "coverage": coverage, "violations": violations,
                "assumptions": ["chunks are handed to the real StreamSender directly (the process/pipe layer of program.rs is not run)",
                                "a crash cuts a writer file anywhere between its last completed flush and the bytes handed over so far",
                                "the same task never runs twice concurrently on one worker (guaranteed by the worker's running-task map)"]}
    finally:
        shutil.rmtree(work, ignore_errors=True)
