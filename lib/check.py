#!/usr/bin/env python3
"""Driver of the HyperQueue verification machinery.

  ./check setup                      build the harness, parse all specifications
  ./check <Cxx> <quick|thorough>     decide one property (exit 0 held / 1 VIOLATION / 2 tool error)
  ./check replay <file>              re-execute a replay file and print what it violates
  ./check all <quick|thorough>       every registered property, one after the other

Every verdict comes from TLC evaluating the TLA+ property formulas, either on the model
(exhaustive MC configurations) or on traces recorded from the real code (trace validation).
"""
import json
import os
import sys
import time

HERE = os.path.dirname(os.path.abspath(__file__))
sys.path.insert(0, HERE)

import common  # noqa: E402


def main():
    if len(sys.argv) < 2:
        print(__doc__)
        return 2
    cmd = sys.argv[1]
    if cmd == "setup":
        return common.setup()
    if cmd == "replay":
        rep = json.load(open(sys.argv[2]))
        if rep.get("engine") == "journal":
            import journal_engine
            return journal_engine.replay(sys.argv[2])
        import cluster_engine
        return cluster_engine.replay(sys.argv[2])
    if cmd == "all":
        tier = sys.argv[2] if len(sys.argv) > 2 else "quick"
        rc = 0
        for pid in common.registered():
            r = run_property(pid, tier)
            rc = max(rc, r)
        return rc
    pid = cmd
    tier = sys.argv[2] if len(sys.argv) > 2 else os.environ.get("VERIF_TIER", "quick")
    return run_property(pid, tier)


def run_property(pid, tier):
    seed = int(os.environ.get("VERIF_SEED", "0"))
    t0 = time.time()
    engine = common.engine_for(pid)
    if engine is None:
        print(f"property {pid} is not claimed (see MANIFEST.json not_applicable)")
        return 2
    try:
        mod = __import__(engine)
        result = mod.run(pid, tier, seed)
    except common.ToolError as e:
        print(f"TOOL-ERROR property={pid} {e}")
        return 2
    return common.finish(pid, tier, seed, result, time.time() - t0)


if __name__ == "__main__":
    sys.exit(main())
