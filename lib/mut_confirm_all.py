#!/usr/bin/env python3
"""Confirms every seeded change that has no positive confirmation yet, N at a time (each in its own scratch worktree)."""
import concurrent.futures as cf, json, os, subprocess, sys
N = int(sys.argv[1]) if len(sys.argv) > 1 else 3
DEMO = {"C01-a": ("tako", "crates/tako/src/internal/tests/test_reactor.rs", "test_c01_retracting_without_target_source_worker_lost", "append")}
todo = []
for d in sorted(os.listdir('/verif/seeded')):
    p = f'/verif/seeded/{d}'
    c = f'{p}/confirmation.json'
    if os.path.exists(c) and json.load(open(c)).get('confirmed'):
        continue
    prop, rnd = d.split("-")
    wt = f'/tmp/mut/{prop}' + ('' if rnd == 'a' else rnd)
    if not os.path.isdir(wt):
        print("no worktree for", d); continue
    if d in DEMO:
        cr, f, t, m = DEMO[d]
    else:
        demo = json.load(open(f'{p}/meta.json')).get('demo')
        if not demo:
            print("no demo block for", d); continue
        cr, f, t, m = demo['crate'], demo['test_file'], demo['test_name'], demo['mode'].split()[0]
    todo.append((d, [sys.executable, '/verif/lib/mut_confirm.py', wt, p, cr, f, t, m]))
def run(x):
    d, cmd = x
    r = subprocess.run(cmd, stdout=subprocess.PIPE, stderr=subprocess.STDOUT, text=True)
    return d, r.stdout.strip().splitlines()[-1][:300] if r.stdout.strip() else "no output"
with cf.ThreadPoolExecutor(max_workers=N) as ex:
    for d, out in ex.map(run, todo):
        print(d, out, flush=True)
