#!/usr/bin/env python3
"""Prints the prompt given to a fresh sub-agent for seeding a property-breaking change (only the property text + its worktree)."""
import json, sys
pid, wt = sys.argv[1], sys.argv[2]
import glob, os
avoid = []
for m in sorted(glob.glob(f'/verif/seeded/{pid}-*/meta.json')):
    d = json.load(open(m))
    avoid.append("- " + str(d.get('summary', ''))[:400].replace("\n", " ") + " (files: " + ", ".join(os.path.basename(f) for f in d.get('files_changed', [])) + ")")
prop = None
for l in open('/verif/properties.jsonl'):
    d = json.loads(l)
    if d['id'] == pid:
        prop = d
text = {k: prop[k] for k in ('id', 'title', 'statement', 'quantifier', 'anchors') if k in prop}
print(f"""You are working in a scratch git worktree of the HyperQueue repository (It4innovations/hyperqueue, an HPC task scheduler written in Rust) located at {wt}. Work ONLY inside {wt}. Never read, list or modify /repo or /verif or any other checkout. There is no network access (cargo must be used with --offline; all crates are already in the local cargo cache).

TASK: produce ONE realistic code change (a plausible bug of the kind a developer could introduce in a refactor or a "simplification": a missed case, a wrong ordering, a dropped update, an off-by-one, a check on the wrong variable, a stale value) that BREAKS the property given below, while
  (a) the code still compiles,
  (b) the existing test suite still passes. The baseline is that all tests pass. Verify with `cd {wt} && cargo test --workspace --offline 2>&1 | tail -40` (this takes several minutes the first time; you may first iterate with `cargo test -p tako --offline --lib` / `cargo test -p hyperqueue --offline --lib`, but the final change must pass the whole workspace test run),
  (c) the breakage needs something SPECIFIC to manifest - a particular interleaving of messages, a crash / worker loss / restart at a particular point, a boundary value or a rarely taken input - NOT a change that fails on every run or on the common path.

PROPERTY (JSON):
{json.dumps(text, indent=1)}

{"ALREADY TAKEN - choose a DIFFERENT idea, in a different function and with a different trigger than these earlier changes:" + chr(10) + chr(10).join(avoid) + chr(10) if avoid else ""}
RULES
- Change only non-test production source code under crates/. Do not modify existing tests, do not touch code under #[cfg(test)], and do not touch the verification hooks: anything guarded by #[cfg(feature = "verif")], the files crates/tako/src/verif.rs, crates/hyperqueue/src/server/verif.rs, crates/tako/src/internal/worker/resources/verif_hooks.rs. The change must not depend on the `verif` cargo feature.
- Keep the change small (typically 1-15 lines) and natural looking. No comments that give it away.
- Leave the change as UNCOMMITTED modifications of the worktree (do not commit, do not stash).

DELIVERABLES (all inside {wt}/MUTATION/, the directory exists):
1. patch.diff : output of `cd {wt} && git diff -- crates > MUTATION/patch.diff` (must apply with `git apply` to the original tree).
2. demo.md : what the change is, why the property is violated, and a CONCRETE demonstration: the exact failing input / schedule / history (which jobs and tasks are submitted, which messages are delivered in which order, where a worker is lost or the server restarted, which boundary value is used, ...) and the observable wrong outcome. If feasible also give an executable demonstration, e.g. a new Rust unit test saved as MUTATION/demo_test.rs together with instructions where to paste it and how to run it (it should fail with the change and pass without it). An executable demonstration is strongly preferred.
3. meta.json : {{"property": "{pid}", "files_changed": [...], "summary": "...", "trigger": "what specific conditions are needed for the violation to show", "tests_run": [{{"cmd": "...", "result": "..."}}], "demo": {{"crate": "tako or hyperqueue", "test_file": "path (relative to the worktree) of the existing source file the demo test has to be added to", "test_name": "name of the demo test fn", "mode": "append (the text of demo_test.rs is appended at the very end of test_file) or inmod (it is inserted just before the final closing brace of test_file, i.e. at the end of its trailing `mod tests {{ ... }}`)"}}}}
   The demo test must be runnable with `cargo test -p <crate> --offline --lib <test_name>` after being added that way, must FAIL with your change and PASS on the original tree; check both yourself. NOTE: the shell exports RUST_BACKTRACE=1 which makes ~37 unrelated snapshot tests of hyperqueue fail even on the original tree; run the test suite with `env -u RUST_BACKTRACE cargo test ...`.

Finish with a short report: the change, the trigger, and the test results you observed.""")
