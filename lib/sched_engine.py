"""Engine for C15 (priorities in a scheduling decision).

The REAL scheduler (create_task_batches + MILP solve with HiGHS + create_task_mapping, through SimServer::schedule) decides small
instances: 1-3 idle or partly busy workers with heterogeneous resources, ready queues of up to 3 single-variant single-node request
classes, up to 8 priority levels, up to 6 ready tasks.  TLC judges every optimal decision with spec/Sched.tla (PriorityRespecting
with the exception clause applied literally; WithinCapacity as a cross-check).  The instance sets are FIXED (independent of
VERIF_SEED) so that a failing instance has a canonical id (content hash): the MILP encoding is an approximation and the listed
property itself reports counterexamples; those of the fixed sets are recorded as known findings by id, every other failing instance
is a violation.
"""
import concurrent.futures as cf
import json
import os
import shutil
import subprocess

import common

# (seed, tier flag, instances)
SETS = {
    "quick": [(101, "quick", 20000), (102, "quick", 20000), (201, "thorough", 20000), (202, "thorough", 20000)],
    "thorough": [(100 + k, "quick", 40000) for k in range(1, 11)] + [(200 + k, "thorough", 40000) for k in range(1, 11)],
}


def gen(args):
    workdir, seed, flag, n = args
    out = os.path.join(workdir, f"sched-{seed}.ndjson")
    p = subprocess.run([common.HQV, "sched", "--tier", flag, "--instances", str(n), "--seed", str(seed), "--out", out],
                       stdout=subprocess.PIPE, stderr=subprocess.PIPE, text=True, timeout=7200)
    if p.returncode != 0:
        raise common.ToolError("sched harness failed: " + p.stderr[-2000:])
    return out, json.loads(p.stderr.strip().splitlines()[-1])


def validate(args):
    workdir, trace = args
    out = common.tlc("SchedTrace.tla", "SchedTrace.cfg", workdir, env={"TRACE": trace}, workers=1, timeout=7200, xmx="6g")
    verdict = common.tlc_printed(out, "VERDICT")
    viols = common.tlc_printed(out, "VIOL")
    if not verdict or "Model checking completed. No error has been found." not in out or verdict[-1]["diameter"] - 1 != verdict[-1]["lines"]:
        raise common.ToolError("sched trace validation did not complete:\n" + out[-3000:])
    return viols[-1] if viols else []


def run(pid, tier, seed):
    common.build_harness()
    work = common.scratch()
    try:
        with cf.ThreadPoolExecutor(max_workers=max(2, common.NCPU - 2)) as ex:
            gens = list(ex.map(gen, [(work, s, flag, n) for (s, flag, n) in SETS[tier]]))
        with cf.ThreadPoolExecutor(max_workers=max(2, common.NCPU // 2)) as ex:
            viols = list(ex.map(validate, [(work, g[0]) for g in gens]))
        violations = []
        others = {}
        seen = set()
        sample = None
        buckets = {}
        for (trace, _), vs in zip(gens, viols):
            lines = None
            for v in vs:
                if v["p"].split("_")[0] != pid:
                    others[v["p"]] = others.get(v["p"], 0) + 1
                    continue
                if lines is None:
                    lines = open(trace).read().splitlines()
                d = json.loads(lines[v["line"] - 1])
                sig = f"{v['p']}:instance={d['id']}"
                if sig in seen:
                    continue
                seen.add(sig)
                violations.append({"formula": v["p"], "signature": sig, "replay": {"engine": "sched", "instance": d},
                                   "detail": json.dumps({k: d[k] for k in ("workers", "tasks", "assigned")})})
            with open(trace) as f:
                for k, line in enumerate(f):
                    i = line.find('"n_classes":')
                    j = line.find('"n_workers":')
                    b = (line[i + 12:i + 13], line[j + 12:j + 13])
                    buckets[b] = buckets.get(b, 0) + 1
                    if sample is None and k == 7:
                        d = json.loads(line)
                        sample = {kk: d[kk] for kk in ("id", "workers", "tasks", "assigned", "result")}
        n = sum(g[1]["instances"] for g in gens)
        coverage = {"states": n, "transitions": n, "traces_validated_against_impl": sum(g[1]["optimal"] for g in gens),
                    "samples": [sample], "instances": n, "optimal_solves_judged": sum(g[1]["optimal"] for g in gens),
                    "instances_by_classes_x_workers": {f"{a}x{b}": c for (a, b), c in sorted(buckets.items())},
                    "instance_sets": [list(s) for s in SETS[tier]], "seed_independent": True,
                    "violated_formulas_of_other_properties_seen": others,
                    "checker_cmd": "tlc -workers 1 -config SchedTrace.cfg SchedTrace.tla (TRACE=<instance set>)"}
        return {"level": "model_checking", "coverage": coverage, "violations": violations,
                "assumptions": ["instance sets are fixed and independent of VERIF_SEED (canonical instance ids)",
                                "only optimal solves are judged; proactive filling switched off; default min-utilization (0)",
                                "HiGHS is deterministic on identical models (checked when the sets were recorded)"]}
    finally:
        shutil.rmtree(work, ignore_errors=True)
