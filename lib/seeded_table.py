#!/usr/bin/env python3
"""Regenerates the table of seeded changes in DESIGN.md from /verif/seeded/*/{meta,result,confirmation}.json"""
import json, os, re
root = '/verif/seeded'
rows = ["| id | property | change (files) | trigger | confirmed by me | detected by |", "|---|---|---|---|---|---|"]
for d in sorted(os.listdir(root)):
    p = os.path.join(root, d)
    if not os.path.isdir(p):
        continue
    def load(n):
        f = os.path.join(p, n)
        return json.load(open(f)) if os.path.exists(f) else {}
    meta, res, conf = load('meta.json'), load('result.json'), load('confirmation.json')
    files = ", ".join(os.path.basename(f) for f in meta.get('files_changed', []))
    caught = "; ".join(f"{c['check']}: {c['signature']} ({c['occurrences']}x)" for c in res.get('caught_by', [])) or ("NOT DETECTED: " + res.get('why', '?') if res else "pending")
    if res.get('missed_before_strengthening'):
        caught += " - first missed: " + res['missed_before_strengthening']
    c = "yes (suite passes, demo fails with / passes without)" if conf.get('confirmed') else ("no: " + json.dumps(conf)[:120] if conf else "pending")
    cell = lambda s: str(s).replace("|", "/").replace("\n", " ")[:260]
    rows.append(f"| {d} | {meta.get('property', res.get('property', '?'))} | {cell(meta.get('summary', ''))} ({files}) | {cell(meta.get('trigger', ''))} | {c} | {cell(caught)} |")
txt = "\n".join(rows)
s = open('/verif/DESIGN.md').read()
if 'SEEDED_TABLE' in s:
    s = s.replace('SEEDED_TABLE', '<!-- SEEDED:BEGIN -->\n' + txt + '\n<!-- SEEDED:END -->')
else:
    s = re.sub(r'<!-- SEEDED:BEGIN -->.*?<!-- SEEDED:END -->', lambda m: '<!-- SEEDED:BEGIN -->\n' + txt + '\n<!-- SEEDED:END -->', s, flags=re.S)
open('/verif/DESIGN.md', 'w').write(s)
print(len(rows) - 2, "seeded changes")
