#!/usr/bin/env python3
"""Print one run of a cluster trace compactly: showrun.py trace.ndjson RUN [UPTO] [--st]"""
import sys, json
f, run = sys.argv[1], int(sys.argv[2])
upto = int(sys.argv[3]) if len(sys.argv) > 3 and sys.argv[3].isdigit() else 10**9
full = '--st' in sys.argv
def msg(m):
    k = m['k']
    if k == 'Compute': return 'Compute' + str([(t['t'], t['inst'], t['v']) for t in m['tasks']])
    if k in ('Retract', 'Cancel', 'RetractResponse'): return k + str(m['ids'])
    if k == 'Update': return 'Update' + str([tuple(u.values()) for u in m['ups']])
    return k
for l in open(f):
    d = json.loads(l)
    if d['run'] != run or d['i'] > upto: continue
    a = d['a']; args = d['args']
    if a == 'Reset': s = 'profile=' + args['profile']['name']
    elif a in ('S2W', 'W2S'): s = f"w{args['w']} " + msg(args['m'])
    elif a == 'Submit': s = json.dumps({k: v for k, v in args.items() if v not in ([], 0, -1, False)}) + ' -> ' + json.dumps(d['resp'])
    else: s = json.dumps(args) + ' -> ' + json.dumps(d['resp'])[:200]
    print(f"{d['i']:3d} {a:9s} {s}")
    for x in d['sent']: print(f"        sent {x['ch']} w{x['w']} {msg(x['m'])}")
    for x in d['ev']:
        if x['k'] not in ('ServerStart',): print('        ev  ', json.dumps(x))
    for x in d['starts']: print('        start', {k: x[k] for k in ('w', 't', 'inst', 'v', 'ok')})
    for x in d['stops']: print('        stop', x)
    if d['pan']: print('        PANIC', d['panic'])
    if (full or d['i'] == upto) and d['st']:
        st = d['st']
        print('        tasks', [(t['id'], t['st'], t['w'], t['v'], t['nd'], t['inst'], t['crash']) for t in st['srv']['tasks']])
        print('        srv  ', [(w['id'], w['kind'], w['assigned'], w['prefilled'], w['free'], w['total'], w['mn']) for w in st['srv']['workers']])
        print('        queue', [(q['rq'], [(r['t'], r['p']) for r in q['ready']], q['pprio'], q['pset']) for q in st['srv']['queues']], 'redir', st['srv']['redirects'], 'sched', st['srv']['need_sched'])
        print('        wk   ', [(w['id'], [(r['t'], r['inst']) for r in w['running']], w['backlog'], w['blocked'], len(w['s2w']), len(w['w2s']), w['stopped']) for w in st['wk']])
        print('        jobs ', [(j['id'], j['open'], j['completed'], j['cnt'], [(t['t'] % 1000, t['s'][:3]) for t in j['tasks']]) for j in st['jobs']], 'fut', st['fut'])
